# Per-property configuration of the driver: which test functions (legs) make up
# the check, how many generated cases / shards per tier, the non-trivial rule
# written into the evidence file, and the trusted base.
#
# leg: test      Go test function in ./checks
#      kind      "rapid" (pgregory.net/rapid property, -rapid.checks per shard)
#                "enum"  (deterministic enumeration, sharded by index)
#      quick / thorough: {"checks": N, "shards": S}

COMMON_ASSUMPTIONS = [
    "the reference storage (lib/refstore.go) implements the Storage/Cursor contract the library is written against: "
    "cursor starts before the first key, Seek(k) positions at the first key >= k, snapshot cursors, nil value = missing key",
    "Go toolchain, strconv/regexp/encoding-json of the standard library and pgregory.net/rapid v1.3.0 are trusted",
]

PROPS = {}

PROPS["C16"] = {
    "level": "exploration",
    "design_ref": "DESIGN.md §4.16",
    "technique": "exhaustive enumeration of short strings + rapid token-sequence generation with all spacings; reference-tokeniser differential and token-truth invariants",
    "level_text": "Bounded-exhaustive exploration: every string up to length 4 (quick) / 5 (thorough) over the alphabet of all "
                  "token-relevant characters is lexed and compared token by token (kind, text, offset) with an independent reference "
                  "tokeniser, and longer generated token sequences are rendered with every choice of optional spacing. The lexer is a "
                  "pure function of the string with a handful of state variables, so short strings reach every state transition; "
                  "no proof is claimed beyond the bound.",
    "level_note": "Trusted: the reference tokeniser (lib/reflex.go, ~100 lines written from the README token description), strconv for "
                  "number classification. Only spaces are varied as separators.",
    "rule": "leg Exhaustive: every string of length 1..L over the 25-symbol token alphabet "
            "{a 1 . space ' \" ` = ! < > ^ ~ & | ( ) [ ] , ; + - * /} (L=4 quick, L=5 thorough), each emitted exactly once; "
            "leg Spacing: rapid-generated token sequences (<=8 tokens: keywords in mixed case, names, numbers, floats, "
            "quoted literals with operators/spaces/other quotes inside, 1- and 2-character operators, brackets, separators) "
            "rendered with EVERY subset of the optional gaps filled (0/1 space, one wide variant). "
            "Oracle: token-truth invariants on every input + exact (kind,text,offset) agreement with an independent reference "
            "tokeniser (lib/reflex.go). Non-trivial = the string contains a two-character operator, or a quoted literal that "
            "touches another token without a space; distinct = distinct strings.",
    "assumptions": [
        "only the space character separates tokens (tabs/newlines are not documented separators and are not generated)",
        "a bare ^ or ~ (not followed by =) has no documented tokenisation: such strings are checked against the "
        "token-truth invariants only, not against the reference tokeniser",
        "an unterminated quote yields a literal token running to the end of input",
        "word classification (integer / float / name) uses strconv as trusted base",
    ],
    "legs": [
        {"test": "TestC16Exhaustive", "kind": "enum",
         "quick": {"shards": 4}, "thorough": {"shards": 16}},
        {"test": "TestC16Spacing", "kind": "rapid",
         "quick": {"checks": 400, "shards": 4}, "thorough": {"checks": 6000, "shards": 16}},
    ],
    "min_nontrivial": {"quick": 1000, "thorough": 10000},
}
