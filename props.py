# Per-property configuration of the driver: which test functions (legs) make up
# the check, how many generated cases / shards per tier, the non-trivial rule
# written into the evidence file, and the trusted base.
#
# leg: test      Go test function in ./checks
#      kind      "rapid" (pgregory.net/rapid property, -rapid.checks per shard)
#                "enum"  (deterministic enumeration, sharded by index)
#      quick / thorough: {"checks": N, "shards": S}

COMMON_ASSUMPTIONS = [
    "the reference storage (lib/refstore.go) implements the Storage/Cursor contract the library is written against: "
    "cursor starts before the first key, Seek(k) positions at the first key >= k, snapshot cursors, nil value = missing key",
    "Go toolchain, strconv/regexp/encoding-json of the standard library and pgregory.net/rapid v1.3.0 are trusted",
]

PROPS = {}

PROPS["C16"] = {
    "level": "exploration",
    "design_ref": "DESIGN.md §4.16",
    "technique": "exhaustive enumeration of short strings + rapid token-sequence generation with all spacings; reference-tokeniser differential and token-truth invariants",
    "level_text": "Bounded-exhaustive exploration: every string up to length 4 (quick) / 5 (thorough) over the alphabet of all "
                  "token-relevant characters is lexed and compared token by token (kind, text, offset) with an independent reference "
                  "tokeniser, and longer generated token sequences are rendered with every choice of optional spacing. The lexer is a "
                  "pure function of the string with a handful of state variables, so short strings reach every state transition; "
                  "no proof is claimed beyond the bound.",
    "level_note": "Trusted: the reference tokeniser (lib/reflex.go, ~100 lines written from the README token description), strconv for "
                  "number classification. Only spaces are varied as separators."
                  " Later widening: tab, line end and the byte 0xff are in the exhaustive alphabet; the reference tokeniser treats space, tab and line end as blanks, folds case without touching bytes that are not UTF-8, and abstains on other Unicode blanks."
                  " Round 5: form feed joins the exhaustive alphabet (a blank the documentation does not mention: the reference abstains, the token-truth invariants still apply); the source span of a word is computed letter by letter (case folding may change the byte length of a letter); the native fuzz leg no longer filters its inputs."
                  " Round 6: the bytes 0xC3 and 0xA0 join the exhaustive alphabet (together the letter a-grave, whose last byte read alone is the Latin-1 no-break space); words ending in such letters in the spacing leg."
                  " Round 7: letters whose lower-case form has another byte length (U+023A, U+212A, U+0130, U+2126) in the words and literal contents of the spacing leg."
                  " Round 10: the carriage return joins the exhaustive alphabet (32 symbols), and the spacing leg draws what a gap is made of: space, tab, line end, CR LF, CR, space + CR LF."
                  " Round 12: the backslash joins the exhaustive alphabet (33 symbols) and the literal contents of the spacing leg (the language has no escape sequences: a quote behind a backslash closes its literal).",
    "rule": "leg Exhaustive: every string of length 1..L over the 25-symbol token alphabet "
            "{a 1 . space ' \" ` = ! < > ^ ~ & | ( ) [ ] , ; + - * /} (L=4 quick, L=5 thorough), each emitted exactly once; "
            "leg Spacing: rapid-generated token sequences (<=8 tokens: keywords in mixed case, names, numbers, floats, "
            "quoted literals with operators/spaces/other quotes inside, 1- and 2-character operators, brackets, separators) "
            "rendered with EVERY subset of the optional gaps filled (0/1 space, one wide variant). "
            "Oracle: token-truth invariants on every input + exact (kind,text,offset) agreement with an independent reference "
            "tokeniser (lib/reflex.go). Non-trivial = the string contains a two-character operator, or a quoted literal that "
            "touches another token without a space; distinct = distinct strings.",
    "assumptions": [
        "only the space character separates tokens (tabs/newlines are not documented separators and are not generated)",
        "a bare ^ or ~ (not followed by =) has no documented tokenisation: such strings are checked against the "
        "token-truth invariants only, not against the reference tokeniser",
        "an unterminated quote yields a literal token running to the end of input",
        "word classification (integer / float / name) uses strconv as trusted base",
    ],
    "legs": [
        {"test": "TestC16Exhaustive", "kind": "enum",
         "quick": {"shards": 4}, "thorough": {"shards": 16}},
        {"test": "TestC16Spacing", "kind": "rapid",
         "quick": {"checks": 400, "shards": 4}, "thorough": {"checks": 6000, "shards": 16}},
        {"test": "FuzzC16", "kind": "fuzz", "thorough": {"fuzztime": 120}},
    ],
    "min_nontrivial": {"quick": 1000, "thorough": 10000},
}

PROPS["C01"] = {
    "level": "exploration",
    "design_ref": "DESIGN.md §4.1",
    "technique": "rapid-generated stores x typed predicates; exact ordered row list from an independent reference evaluator; row/batch/repetition",
    "level_text": "Randomised exploration with an exact oracle: stores (5 value kinds, 0..70 pairs, keys dense in prefixes/ties) and "
                  "well-typed predicates of the documented core language are generated from a typed grammar over the harness' own AST; "
                  "an independent reference evaluator written from the README computes the expected ordered row list, and the engine's "
                  "rows must equal it exactly in row mode, batch mode and on a second execution. Sampling, not proof; literals are drawn "
                  "from stored keys/values and their neighbours so boundaries are dense.",
    "level_note": "Trusted: reference evaluator lib/refeval.go (README semantics; assumption A-div: int/int division truncates), "
                  "reference store. Corners the README leaves open (int() of non-numeric text, float rendering, overflow, "
                  "non-ASCII case mapping, BETWEEN with lower>=upper) are never generated."
                  " Later widening: one case in six joins a predicate over a list value (IN over split()/list(), len, [n]); IN lists of 33-70 keys; stores up to 130 pairs; one integer store in six holds integers near the int64 limits (the reference abstains on arithmetic beyond 2^40); trailing semicolons."
                  " Round 6: one numeric comparison in three compares with the value its left side has on one of the stored pairs (on the boundary); one float store in four holds values that are not exactly representable (0.1, 0.3, 0.7)."
                  " Round 8: fixed-width decimals with leading zeros (010, 025, 008, 0100) among the stored integers."
                  " Round 9: integer neighbours that a float64 cannot tell apart (9223372036854775806/07, 9007199254740992/93) among the extreme integers.",
    "rule": "rapid: store kind x size {0..70} x batch size {1,2,3,5,32} x predicate depth 0..4 (comparisons, ^=, ~=, IN, BETWEEN, "
            "& | and or !, arithmetic, int/float/str/upper/lower/strlen/is_int/is_float/join/len(split)), literal on either side, "
            "`select * where P` and bare `where P`. Non-trivial = at least one stored pair satisfies P and at least one does not; "
            "distinct = distinct (query text, store) pairs (hash set).",
    "assumptions": COMMON_ASSUMPTIONS + [
        "a statement the engine rejects at plan time is outside C01 (accepted queries only); such cases are counted under label rejected-by-engine and must stay rare",
    ],
    "legs": [
        {"test": "TestC01", "kind": "rapid",
         "quick": {"checks": 15000, "shards": 4}, "thorough": {"checks": 150000, "shards": 16}},
    ],
    "min_nontrivial": {"quick": 2000, "thorough": 50000},
}

PROPS["C02"] = {
    "level": "exploration",
    "design_ref": "DESIGN.md §4.2",
    "technique": "exhaustive enumeration of predicate trees over key atoms (depth<=1 full pool, depth 2 reduced pool) + rapid deep trees; "
                 "planned region read from the plan's scan node must contain every reference-satisfying key of a verified key universe; rows = full-scan filter",
    "level_text": "Bounded-exhaustive exploration of the scan-range inference: every atom and every `atom op atom` over a 6-literal pool "
                  "(about 130 atoms: key =,!=,<,<=,>,>=,^= literal with the literal on either side, IN lists, BETWEEN, opaque atoms), every "
                  "depth-2 tree over a reduced pool (thorough; every 7th in quick), and sampled trees of depth 3-5. For each statement the "
                  "region (EMPTY/MGET/PREFIX/RANGE/FULL or the DELETE->REMOVE key list) is extracted from exported plan fields and must "
                  "contain every key of the universe that the reference evaluator says can satisfy the filter; the REMOVE shortcut must be "
                  "exact; and the executed rows (or the store after DELETE) must equal the reference-filtered full scan.",
    "level_note": "Trusted: reference evaluator, region extraction from exported fields (MultiGetPlan.Keys, PrefixScanPlan.Prefix, "
                  "RangeScanPlan.Start/End, RemovePlan.Keys). The key universe (all keys of length <= maxLiteral+1 over {` a b c}) is checked by "
                  "TestC02Universe to realise every order/prefix relationship a random byte-string key can have to the literals."
                  " Later widening: IN lists whose elements are computed ('a' + '', lower('A')) next to literal ones."
                  " Round 8: the second store of the key universe holds EMPTY values (a stored pair with an empty value is a pair like any other); the opaque atoms are evaluated on 'x' and on the empty value.",
    "rule": "enumerated predicate trees (each emitted once) + rapid-sampled deep trees; both SELECT and DELETE forms. "
            "Non-trivial = the planner chose a region narrower than FULL and at least one key of the universe satisfies the predicate; "
            "distinct = distinct statements.",
    "assumptions": COMMON_ASSUMPTIONS + [
        "keys are non-empty byte strings",
        "opaque atoms that mention the key (upper(key)='A', key ~= 'a.') are not used by the planner to derive regions, so agreement on the universe is agreement on all keys",
    ],
    "legs": [
        {"test": "TestC02Depth1", "kind": "enum", "quick": {"shards": 6}, "thorough": {"shards": 16}},
        {"test": "TestC02Depth2", "kind": "enum", "quick": {"shards": 6}, "thorough": {"shards": 16}},
        {"test": "TestC02Sampled", "kind": "rapid", "quick": {"checks": 4000, "shards": 3}, "thorough": {"checks": 60000, "shards": 16}},
        {"test": "TestC02Universe", "kind": "rapid", "quick": {"checks": 5000, "shards": 1}, "thorough": {"checks": 200000, "shards": 1}},
    ],
    "min_nontrivial": {"quick": 5000, "thorough": 50000},
    "timeout": {"quick": 900, "thorough": 7200},
}

PROPS["C18"] = {
    "level": "exploration",
    "design_ref": "DESIGN.md §4.18",
    "technique": "exhaustive enumeration of canonical key-pinning shapes and their conjunctions x literal pool; invariant over the storage call log of an instrumented reference store",
    "level_text": "Bounded-exhaustive exploration with a call-log oracle: every canonical pinning atom (key =,<,<=,>,>=,^= literal with the "
                  "literal on either side, IN lists, BETWEEN), every conjunction of two of them, conjunctions with opaque predicates on either "
                  "side (and sampled triples) over a 6-literal pool are executed to exhaustion (Next until nil / Batch until an empty batch, "
                  "batch sizes 32 and 3) against the 84-key universe behind an instrumented store; rapid adds random stores and literals drawn "
                  "from them. The log must show: reads confined to the region of one pinning conjunct plus at most one key beyond its end, "
                  "Get-only traffic when a conjunct is an equality/IN, and no Get/Next at all for clauses unsatisfiable on their face.",
    "level_note": "Trusted: instrumented store wrapper (lib/refstore.go). 'Unsatisfiable on its face' is decided syntactically from the "
                  "property's list: constant false, disjoint key sets, prefixes that do not extend each other, disjoint closed ranges."
                  " Round 11: one case in three (enumeration) / one in two (rapid) polls the drained plan one or two more times; the reads of those polls count.",
    "rule": "enumerated shapes x {row, batch 32, batch 3} (each emitted once) + rapid random stores/literals. Non-trivial = the store holds "
            "keys both below and above the region of the conjunct that covers the reads, or the clause is unsatisfiable on its face; "
            "distinct = distinct (statement, mode, batch size, store).",
    "assumptions": COMMON_ASSUMPTIONS + [
        "reads = arguments of Get and keys returned by Cursor.Next over the whole execution as a caller performs it",
        "regions are taken closed (key > 'a' may read 'a')",
    ],
    "legs": [
        {"test": "TestC18Shapes", "kind": "enum", "quick": {"shards": 4}, "thorough": {"shards": 16}},
        {"test": "TestC18Random", "kind": "rapid", "quick": {"checks": 10000, "shards": 2}, "thorough": {"checks": 300000, "shards": 8}},
    ],
    "min_nontrivial": {"quick": 5000, "thorough": 50000},
}

PROPS["C05"] = {
    "level": "exploration",
    "design_ref": "DESIGN.md §4.5",
    "technique": "rapid-generated aliased SELECTs; metamorphic (alias expanded by its definition), differential (field cache on/off x row/batch) and reference-evaluator oracles per column",
    "level_text": "Randomised exploration with three independent oracles per case: (a) the same statement with every use of a name replaced "
                  "by its defining expression must return the same rows; (b) every returned row has one column per announced field and each "
                  "column equals the reference evaluator's value of that field's expression on the row's pair; (c) EnableFieldCache on/off and "
                  "row/batch iteration give identical rows at the drawn batch size. Names are used as operands of binary operators (also under "
                  "! and nested &/|), function arguments, IN left sides / list-valued right sides / items, BETWEEN bounds, list index bases, "
                  "inside other definitions (chains), ORDER BY and GROUP BY.",
    "level_note": "Trusted: reference evaluator and RefSelect (lib/refselect.go). A bare name as a whole select field or whole WHERE is not "
                  "generated (not a use the property lists); duplicate alias names are not generated. ORDER BY ties are compared as multisets."
                  " Later widening: a field that is only a name (n as m) and repeated names (a later field reusing an earlier name of the same type) ARE generated now; names that need back quotes (blank, dash, capitals); aggregate fields built on the names of earlier aggregate or group fields. Leg TestC05NameKeyCollide draws names and keys from fragments with '-', ':' and digits; leg TestC05DynamicCache runs templates over JSON members in runs of one kind and only compares cache on against cache off within one mode (the reference has no semantics for JSON)."
                  " Round 5: chains of fields that are only names (n as z1, z1 as z2, ..), each inserted at a random place of the select list, in front of or behind the field it names."
                  " Round 8: one aliased field in twelve takes the upper-case variant of an earlier name (t1 and `T1` are two names)."
                  " Round 11: two more configurations per case create the execute context while the cache switch still has the other value (the switch is a package variable, a context copies it when it is created).",
    "rule": "rapid: store kind x size x batch size x 1-4 select fields (typed expressions, 75% named) x WHERE depth 0-3 with 35% alias bias; "
            "one in four statements is an aggregate grouped by named fields; one in three has ORDER BY. "
            "Non-trivial = a name is used in WHERE and, in key order, a pair the filter rejects precedes a pair it accepts "
            "(a stale cached value could leak); distinct = distinct (query, store, batch size).",
    "assumptions": COMMON_ASSUMPTIONS + [
        "expanded statements that the checker refuses for structural reasons (key op key after expanding `key as t`) are skipped and counted (label expansion-rejected)",
    ],
    "legs": [
        {"test": "TestC05", "kind": "rapid",
         "quick": {"checks": 15000, "shards": 4, "shrink": "15s"}, "thorough": {"checks": 120000, "shards": 16}},
        {"test": "TestC05NameKeyCollide", "kind": "rapid", "quick": {"checks": 6000, "shards": 1}, "thorough": {"checks": 80000, "shards": 4}},
        {"test": "TestC05DynamicCache", "kind": "rapid", "quick": {"checks": 6000, "shards": 1}, "thorough": {"checks": 100000, "shards": 4}},
    ],
    "min_nontrivial": {"quick": 300, "thorough": 5000},
}

PROPS["C03"] = {
    "level": "exploration",
    "design_ref": "DESIGN.md §4.3",
    "technique": "rapid-generated statements of the full language; differential Next-drain vs Batch-drain at two batch sizes, content-normalised rows, resulting stores for writes",
    "level_text": "Randomised differential exploration: statements of the full language (all scalar functions incl. substr/json/distances, "
                  "list and JSON indexing, aliases, aggregates incl. quantile, ORDER BY, GROUP BY, LIMIT, PUT, REMOVE, DELETE) are executed "
                  "over equal stores once with Next and with Batch at two batch sizes drawn from {1,2,3,5,32,64}. If batch iteration "
                  "completes, row iteration must complete; if both complete, rows must be equal position by position under the content value "
                  "model (ORDER BY ties as multisets) and writes must leave equal stores. Statements may fail at run time (that is part of the domain).",
    "level_note": "No reference evaluator is involved: the two iteration modes are compared with each other, which is what the property states. "
                  "Row-ok/batch-error is allowed (row mode short-circuits & and |) and counted."
                  " Row and batch iteration are compared under the SAME batch-size setting (statements that drive their child in chunks evaluate ahead according to the setting in either mode); rows are also compared across the two settings whenever both row runs complete."
                  " Round 6: leg TestC03Dynamic - the templates of C06's dynamic leg (every operator family and function over json(value)['m'], member against member) over runs of pairs whose members are a number, a text, a Boolean, null, an array or an object: whenever batch iteration answers, row iteration must answer the same."
                  " Round 9: is_int / is_float are also applied to numeric expressions (an integer or a float when evaluated)."
                  " Round 12: two long damaged JSON documents joined the hostile value pool.",
    "rule": "rapid: store kind x size (0..70) x two batch sizes x statement (60% SELECT with aliases/aggregates/order/limit, 10% DELETE, 15% PUT, 15% REMOVE) "
            "with exotic constructs enabled. Non-trivial = both modes complete, the result has >= 2 rows or spans more than one chunk, and the "
            "statement uses a construct with a twin implementation (function, alias, index, aggregate, order, limit, write); "
            "distinct = distinct (query, store, batch sizes).",
    "assumptions": COMMON_ASSUMPTIONS,
    "legs": [
        {"test": "TestC03", "kind": "rapid",
         "quick": {"checks": 20000, "shards": 4, "shrink": "15s"}, "thorough": {"checks": 250000, "shards": 16}},
        {"test": "TestC03Dynamic", "kind": "enum", "quick": {"shards": 2}, "thorough": {"shards": 4}},
    ],
    "min_nontrivial": {"quick": 5000, "thorough": 100000},
}

PROPS["C04"] = {
    "level": "exploration",
    "design_ref": "DESIGN.md §4.4",
    "technique": "exhaustive enumeration of constant-bearing expression shapes (depth<=2) + rapid deeper trees; value+kind of ExpressionOptimizer output vs un-optimized parse vs reference evaluator, row and batch forms, and end-to-end rows",
    "level_text": "Bounded-exhaustive exploration of the rewrite rules: every arithmetic shape of depth <= 2 over 9 constants of both kinds and 3 "
                  "row-dependent leaves (all int/float operand-kind combinations, every (x op c1) op c2 chain), every constant comparison combined "
                  "with row predicates through & and | on either side, constant calls, text chains; rapid adds deeper typed trees. Each text is parsed "
                  "twice with Parser.Parse (which does not fold); one copy is rewritten with ExpressionOptimizer.Optimize. On every pair where the "
                  "original evaluates without error the rewritten tree must evaluate to the same value of the same kind (Execute and ExecuteBatch); "
                  "both are compared with the reference evaluator, and the full query through BuildPlan must return the reference rows.",
    "level_note": "Trusted: reference evaluator (third leg only; the first two legs compare the engine's own evaluator before/after rewriting). "
                  "Floats are exactly representable (k/4) and small so equality is exact; literal zero divisors are refused statically and skipped."
                  " Later widening: floats that are not exactly representable (0.1, 0.2) and constant conversion calls (float(3), float('2'), int('7')) among the leaves. Pairs on which the reference reports a magnitude error (the original only evaluates by wrapping around int64) are skipped and counted."
                  " Round 5: leg TestC04AggrFields - a constant Boolean combined (& | and or, either side, bare or inside str()) with an operand that holds an aggregate function, also under !: the statement must return the same rows as the same statement with the constant written as a predicate of the pair that cannot be folded (strlen(key) >= 0 / < 0), i.e. the statement without the rewrite."
                  " Round 6: every arithmetic shape is also placed in `e = v`, `e >= v`, `e <= v` with v the value of e on one of the pairs (a rewrite that moves e by one unit in the last place below a Boolean root changes the rows); the pairs hold 0.1, 0.3, 0.7 and 2.675."
                  " Round 7: every arithmetic shape is also run under a name (`e as c1, c1 as c2, c1 + 0 as c3`): the field, a field that is only its name and a field that uses the name must all show the value of e as written."
                  " Round 8: the text chains also hold numbers (key + 1 + 2): refused by the checker today and counted as rejected; the comparison original / rewritten is made for whatever a tree accepts."
                  " Round 10: every all-text chain a + b + c of the enumeration is also run as `a + b as c1, c1 as c2, c1 + c as c3` (the chain goes on behind a name); c1, its name and the continued chain must show the reference values."
                  " Round 11: two constant calls whose canonical renderings coincide, join('-', \"a', 'b\") and join('-', 'a', 'b'), are among the leaves of the text chains (anything remembered per rendered text confuses them).",
    "rule": "enumerated expressions placed as select field or inside a WHERE comparison (each emitted once) + rapid typed trees depth 1-4. "
            "Non-trivial = the rewrite changed the rendered expression (String() differs) and the original evaluates on at least one pair; "
            "distinct = distinct statements.",
    "assumptions": COMMON_ASSUMPTIONS,
    "legs": [
        {"test": "TestC04Arith", "kind": "enum", "quick": {"shards": 4}, "thorough": {"shards": 16}},
        {"test": "TestC04Bool", "kind": "enum", "quick": {"shards": 2}, "thorough": {"shards": 4}},
        {"test": "TestC04AggrFields", "kind": "enum", "quick": {"shards": 1}, "thorough": {"shards": 1}},
        {"test": "TestC04Sampled", "kind": "rapid", "quick": {"checks": 8000, "shards": 2}, "thorough": {"checks": 300000, "shards": 12}},
    ],
    "min_nontrivial": {"quick": 5000, "thorough": 50000},
}

PROPS["C15"] = {
    "level": "exploration",
    "design_ref": "DESIGN.md §4.15",
    "technique": "exhaustive enumeration of operator sequences with an independent precedence-climbing oracle + rapid typed trees rendered in several parenthesis/case styles; structural comparison of the parse tree; print->parse fixpoint",
    "level_text": "Bounded-exhaustive exploration: every operator sequence x0 o1 x1 .. on xn with n <= 4 (thorough 5) over {| or & and = < in between + - * /} "
                  "is written without parentheses; the expected tree comes from an independent precedence-climbing over the documented table, leaves are "
                  "typed top-down (untypeable sequences are skipped and counted), optional ! prefixes and call/index leaves are mixed in. "
                  "Parser.Parse must accept the text and return a tree structurally equal to the generating tree (walk over exported node types, "
                  "independent of String()). rapid adds random typed trees rendered with minimal, random redundant and full parentheses and random "
                  "letter case of keywords, operator words and function names. For every accepted case the canonical rendering String() is parsed "
                  "again and must render and parse identically (fixpoint); a statement-level leg does the same for WHERE and every select field of "
                  "generated SELECTs with named fields (names print as `name` and are re-parsed under the same select list).",
    "level_note": "Trusted: the documented precedence table as encoded in lib/render.go (DocPrec) and the s-expression walkers. Literals are free of "
                  "quote characters (the language has no escape syntax). Only pre-optimisation trees are round-tripped."
                  " Later widening: names that need back quotes in generated statements; leg TestC15Names: back-quoted names that are not select fields (capitals, blanks, operator characters, keywords, numbers) as arguments, list items and operands - the printed filter must parse to the same tree and select the same rows."
                  " Round 5: TestC15Names also enumerates every back-quoted name of up to 2 (thorough: 3) characters over 25 characters that matter to the lexer (comma, semicolon, brackets, quotes, operators, blank, tab)."
                  " Round 8: one numeric BETWEEN in four has computed bounds, the lower one starting with a parenthesised sum ((a + b) * 1)."
                  " Round 10: one tree in eight is str(!b) - a call argument that begins with the unary operator; the shared text generator emits str(!is_int(x)) as well.",
    "rule": "enumerated operator sequences (each emitted once; typeable ones are cases) + rapid trees depth 1-5 x 4 parenthesis styles x random case, "
            "as WHERE or as select field. Non-trivial = the expression has at least two binary operators (precedence or associativity is exercised); "
            "distinct = distinct query texts.",
    "assumptions": ["Go toolchain and pgregory.net/rapid v1.3.0 are trusted",
                    "redundant parentheses are never put directly around the list-valued right operand of IN (`x in (f())` is a one-element list by the grammar)"],
    "legs": [
        {"test": "TestC15Sequences", "kind": "enum", "quick": {"shards": 2}, "thorough": {"shards": 16}},
        {"test": "TestC15Trees", "kind": "rapid", "quick": {"checks": 15000, "shards": 4}, "thorough": {"checks": 400000, "shards": 12}},
        {"test": "TestC15Statements", "kind": "rapid", "quick": {"checks": 8000, "shards": 2}, "thorough": {"checks": 150000, "shards": 8}},
        {"test": "TestC15Names", "kind": "enum", "quick": {"shards": 1}, "thorough": {"shards": 4}},
    ],
    "min_nontrivial": {"quick": 5000, "thorough": 50000},
}

PROPS["C06"] = {
    "level": "exploration",
    "design_ref": "DESIGN.md §4.6",
    "technique": "grammar-based generation + single-edit corruption + long-input families (rapid), and native coverage-guided go fuzzing with a seeded corpus in the thorough tier; crash/termination oracle inside the target, per-process isolation with a case journal for fatal runtime errors",
    "level_text": "Search for crashes, not proof of their absence: (1) statements of the full language (exotic constructs on) over hostile stores "
                  "(empty, non-numeric, mixed-type JSON, non-UTF-8, extreme numbers); (2) single and double edits of them (delete / duplicate / swap / "
                  "replace / insert token, flip byte, truncate, unbalance bracket or quote, splice two statements, pad); (3) long inputs up to 8 KB "
                  "(deep parentheses, ! chains, 1500-term operator chains, long IN lists, 300-link alias chains); (4) the README/spec examples and "
                  "the crashers named in the property; (4b) 38 statement templates that apply every operator family, scalar function, ORDER BY, GROUP BY "
                  "and aggregate to a JSON member, over every assignment of 12 dynamic types (int, float, string, bool, null, arrays, object, missing) to "
                  "that member in the first rows of the store (the batch path picks its comparison kind from the first row of a chunk); (5) thorough tier: go test -fuzz on (query, store selector) seeded with all of the above. "
                  "Each case is planned, drained with Next and with Batch at batch sizes 1,2,3,32 and every error is bound and rendered with three "
                  "paddings. A recovered panic, a drain exceeding the deterministic poll cap, >30 CPU-seconds for one case, or the death of the "
                  "worker process (stack overflow and other fatal errors bypass recover; the driver attributes them through the case journal) "
                  "is a violation.",
    "level_note": "The poll cap (4*pairs + len(query) + 64 polls) is deterministic, no wall clock is used as a correctness signal. "
                  "Native fuzzing cannot be pinned to a seed; its saved failing input is the reproducible unit. Cache-off exponential alias fan-out is not explored."
                  " Later widening: every query text also goes through BuildExecutor; quantile percents outside [0, 1] written as constant expressions; leg TestC06Chains plans and runs chains of up to 40 named fields that each use the previous name twice (also as parameter of quantile / group_concat) under a 20 s deadline per statement - the one place where wall-clock time decides, four orders of magnitude above the linear cost."
                  " Round 5: leg TestC06NameGraph - select lists over a pool of three names in which fields name themselves, each other and repeat names (the first definition counts), the names also used in WHERE / ORDER BY / GROUP BY: a definition cycle that slips through the check overflows the stack."
                  " Round 8: leg TestC06Arity calls every function and aggregate (and an unknown one) with 0 to 4 arguments of several kinds, as a field, grouped, inside WHERE and as a group column, over all pairs of the hostile stores."
                  " Round 9: the arity leg also writes every call as the NAME of a call (lower()(1)), in a select field and as a REMOVE key."
                  " Round 12: two long damaged JSON documents joined the hostile value pool.",
    "rule": "rapid legs Grammar/Corrupt + deterministic legs Long/Seeds (+ native fuzz executions in the thorough tier, counted as evaluations only). "
            "Non-trivial = the statement reached execution (plan built and at least one storage read) or it was rejected with a positional error; "
            "distinct = distinct (query text, store size).",
    "assumptions": COMMON_ASSUMPTIONS + ["keys are non-empty and values non-nil (a nil value means 'missing key' to the library)"],
    "legs": [
        {"test": "TestC06Seeds", "kind": "enum", "quick": {"shards": 1}, "thorough": {"shards": 1}},
        {"test": "TestC06Arity", "kind": "enum", "quick": {"shards": 1}, "thorough": {"shards": 1}},
        {"test": "TestC06Long", "kind": "enum", "quick": {"shards": 2}, "thorough": {"shards": 4}},
        {"test": "TestC06Dynamic", "kind": "enum", "quick": {"shards": 4}, "thorough": {"shards": 8}},
        {"test": "TestC06Chains", "kind": "enum", "quick": {"shards": 1}, "thorough": {"shards": 1}},
        {"test": "TestC06Grammar", "kind": "rapid", "quick": {"checks": 10000, "shards": 4, "shrink": "15s"}, "thorough": {"checks": 150000, "shards": 8}},
        {"test": "TestC06NameGraph", "kind": "rapid", "quick": {"checks": 6000, "shards": 2, "shrink": "15s"}, "thorough": {"checks": 100000, "shards": 4}},
        {"test": "TestC06Corrupt", "kind": "rapid", "quick": {"checks": 15000, "shards": 4, "shrink": "15s"}, "thorough": {"checks": 300000, "shards": 8}},
        {"test": "FuzzC06", "kind": "fuzz", "thorough": {"fuzztime": 600}},
    ],
    "min_nontrivial": {"quick": 10000, "thorough": 200000},
    "timeout": {"quick": 900, "thorough": 7200},
}

PROPS["C14"] = {
    "level": "exploration",
    "design_ref": "DESIGN.md §4.14",
    "technique": "typed-grammar generation of well-typed statements and single-fault mutants planted at every syntactic position (deterministic fault x position grid + rapid); accept / reject-with-zero-storage-calls oracle on an instrumented store",
    "level_text": "Two-sided exploration of the static checker. Rejection leg: a catalogue of 30 clear-cut faults (text operand of - * /, text + number, "
                  "number operand of ^= ~=, text compared with number, non-Boolean operand of & | and or !, wrong IN item / BETWEEN bound type, unknown "
                  "function, wrong argument count, value inside PUT, key/value inside REMOVE, non-Boolean WHERE) is planted (a) deterministically in every "
                  "cell of a fault x position grid of 36 skeleton positions (both sides of & | and or, under !, nested under !, call / var-arg / aggregate "
                  "arguments, IN left side and items, BETWEEN bounds, index base, select fields, fields referenced from WHERE / ORDER BY / GROUP BY, "
                  "arithmetic around aggregates, DELETE, PUT key/value, REMOVE) and (b) by rapid at a random node of generated statements; BuildPlan "
                  "over an instrumented store must return an error and the store must have seen zero calls. Acceptance leg: statements of the typed "
                  "grammar must build and, drained in both modes over stores of the kind their conversions accept, must never fail with an "
                  "operand-type class error.",
    "level_note": "Operand-type error = message contains one of: wrong type, not boolean, not string, not number, parameter type, not list/List/JSON, "
                  "require number/string type, Cannot find function, arguments but got. JSON field access is excluded from the acceptance leg as the "
                  "property says. The acceptance leg only asserts acceptance for the sub-language of DESIGN.md §2.2."
                  " Later widening: leg TestC14Matrix runs every operator over every pair of operand forms of every static type (15 forms, as select field, as WHERE and as a field beside count(1) .. group by key): whatever the verdict, it must come at plan build - rejected with zero storage calls, or accepted and never failing with an operand-type error; raw-text forms for shapes the AST cannot express (faults in a second subscript, key in a put key, aggregates in aggregate arguments / GROUP BY / WHERE) and for shapes that must be accepted (Boolean literals under and/or, ! under comparisons, a Boolean name as the whole WHERE); half of the mutant hosts use the wider language (JSON cascades)."
                  " Round 5: a JSON-typed operand form (json('{..}')) joins the matrix (16 forms)."
                  " Round 6: leg TestC14Forms draws, as text, families of faults the AST cannot express - a fault in the 2nd..4th subscript of a cascade (also on a named JSON field), an aggregate inside the argument of an aggregate (directly, below scalar calls, through a chain of names, the name also used outside the aggregate), an aggregate reached through GROUP BY or standing in WHERE / DELETE / PUT / REMOVE, a subscript behind a list element, a list or JSON field beside an aggregate. Every form comes with its control, the same text with the fault taken out: the form must be refused with zero storage calls AND the control must be accepted (a refused control is a violation of the converse sentence, and shows a form that would be refused for the wrong reason)."
                  " Round 8: an element of a list of texts (split(value, ',')[0]) joins the operand forms of the matrix (17 forms)."
                  " Round 12: one well-typed case in eight is `select key, split(value, ',')[n] where split(value, ',')[n] <op> '<lit>'` over 2..9 values that split into 1..4 parts (lists of different lengths in one chunk, the index past the end of some).",
    "rule": "deterministic fault x position grid (each cell once) + rapid mutants + rapid well-typed statements. Non-trivial = a mutant whose fault is "
            "not at the root of WHERE / a select field / a PUT or REMOVE operand, a grid cell, or a well-typed statement with at least two operators; "
            "distinct = distinct statements.",
    "assumptions": COMMON_ASSUMPTIONS,
    "legs": [
        {"test": "TestC14Positions", "kind": "enum", "quick": {"shards": 1}, "thorough": {"shards": 1}},
        {"test": "TestC14Matrix", "kind": "enum", "quick": {"shards": 1}, "thorough": {"shards": 1}},
        {"test": "TestC14Forms", "kind": "rapid", "quick": {"checks": 6000, "shards": 2}, "thorough": {"checks": 200000, "shards": 4}},
        {"test": "TestC14Mutants", "kind": "rapid", "quick": {"checks": 12000, "shards": 3}, "thorough": {"checks": 400000, "shards": 8}},
        {"test": "TestC14WellTyped", "kind": "rapid", "quick": {"checks": 12000, "shards": 3}, "thorough": {"checks": 400000, "shards": 8}},
    ],
    "min_nontrivial": {"quick": 5000, "thorough": 100000},
}

PROPS["C17"] = {
    "level": "exploration",
    "design_ref": "DESIGN.md §4.17",
    "technique": "rapid-generated erroneous statements (token corruptions, typed mutants, run-time failures) x leading/trailing blanks x padding settings; position-in-token-starts and caret-arithmetic oracle on the rendered text; native fuzzing in the thorough tier",
    "level_text": "Randomised exploration of error positions: corrupted statements (short and lengthened beyond the 70-character window, fault early or late), "
                  "statically ill-typed mutants and valid statements that fail at run time over hostile stores, each with 0-50 leading and trailing blanks "
                  "and one of four padding settings (default 7, SetPadding(0), SetPadding(20), DefaultErrorPadding=3). For every positional error: "
                  "Pos is -1 or inside the query; for plan-time syntax errors Pos is 0 or a token start (engine lexer and reference tokeniser); after "
                  "BindQuery the text has exactly query / caret / message lines, the window (minus '... ' / ' ...') is the stretch of the query that "
                  "puts query[Pos] exactly above the caret (end of the trimmed text for -1, first non-blank for offsets inside leading blanks), and the "
                  "message line is indented by the padding.",
    "level_note": "Rendering is checked for single-line queries only (the window logic is line oriented); crashes while rendering are C06's subject and are also reported here as violations of the render leg."
                  " The reference tokeniser abstains on Unicode blanks other than space, tab and line end (the engine's own token starts are accepted there)."
                  " Round 5: blanks the documentation does not mention (form feed, vertical tab, NBSP, U+3000) in front of tokens, for one statement in four behind every space; where the reference abstains, no token start may lie ON a blank."
                  " Round 6: one statement in five is written over several lines (CRLF, LF, tabs): positions are checked, the line-oriented rendering is not; every error returned by BuildPlan, whatever its Go type, must point at 0, -1 or a token start."
                  " Round 7: after the first rendering is verified the padding of the SAME error is changed and the rendering verified again."
                  " Round 9: the undocumented blanks are also glued behind the token in front of the space."
                  " Round 12: two long JSON documents that are damaged far behind their start are among the hostile stored values (an offset into a value is no offset into the query).",
    "rule": "rapid legs Corrupt / RunTime / Typed (+ native fuzz executions in the thorough tier). Non-trivial = a positional error with Pos >= 0 in a "
            "query longer than 70 bytes or with leading blanks; distinct = distinct (query, padding mode).",
    "assumptions": ["Go toolchain and pgregory.net/rapid v1.3.0 are trusted", "token starts are taken from the engine lexer (validated by C16) and from the reference tokeniser"],
    "legs": [
        {"test": "TestC17Corrupt", "kind": "rapid", "quick": {"checks": 12000, "shards": 4}, "thorough": {"checks": 200000, "shards": 8}},
        {"test": "TestC17RunTime", "kind": "rapid", "quick": {"checks": 6000, "shards": 2}, "thorough": {"checks": 100000, "shards": 4}},
        {"test": "TestC17Typed", "kind": "rapid", "quick": {"checks": 6000, "shards": 2}, "thorough": {"checks": 100000, "shards": 4}},
        {"test": "FuzzC17", "kind": "fuzz", "thorough": {"fuzztime": 300}},
    ],
    "min_nontrivial": {"quick": 5000, "thorough": 100000},
    "timeout": {"quick": 900, "thorough": 7200},
}

PROPS["C07"] = {
    "level": "exploration",
    "design_ref": "DESIGN.md §4.7",
    "technique": "rapid-generated ordered SELECTs (plain and aggregate, 1-3 keys, asc/desc, ties); metamorphic base = same statement without ORDER BY; permutation + adjacent-pair sortedness under an independent typed comparator",
    "level_text": "Randomised exploration with a two-directional oracle: the ordered result must be a permutation (multiset equality) of what the same "
                  "statement returns without the ORDER BY clause in the same mode, and every adjacent pair must be in non-decreasing order under an "
                  "independent lexicographic comparator that uses the declared type of each order field from the generating AST (text byte-wise, numbers "
                  "numerically across int/float and numeric text of group columns, false before true) and the written direction. A lone "
                  "`order by key asc` must leave the sequence unchanged. The un-ordered base itself is cross-checked against the reference evaluator.",
    "level_note": "Trusted: comparators in lib/refselect.go, reference select. Ties may come in any order (only sortedness and permutation are demanded)."
                  " Later widening: the harness comparator is exact (big.Float); float stores hold NaN in one case of three - rows with a NaN order key are exempt from the adjacency check, all other rows must be sorted among themselves; integers near the int64 limits."
                  " Round 6: half of the statements carry a chain of name-only fields, one chain in three ending in a concatenation on a text name (a field whose type is only known once the name inside it is resolved)."
                  " Round 9: Boolean GROUP BY columns (strlen(key) > 1, is_int(value), key ^= 'a').",
    "rule": "rapid: store x select list with named text/int/float/bool fields (25% aggregates with GROUP BY) x 1-3 ORDER BY keys x directions x batch {2,3,32} x {row,batch}. "
            "Non-trivial = at least 3 rows, at least one strictly ordered adjacent pair, and (for more than one key) at least one tie on the first key; "
            "distinct = distinct (query, store, batch size).",
    "assumptions": COMMON_ASSUMPTIONS,
    "legs": [
        {"test": "TestC07", "kind": "rapid", "quick": {"checks": 12000, "shards": 4, "shrink": "15s"}, "thorough": {"checks": 120000, "shards": 16}},
    ],
    "min_nontrivial": {"quick": 1000, "thorough": 20000},
}

PROPS["C08"] = {
    "level": "exploration",
    "design_ref": "DESIGN.md §4.8",
    "technique": "exhaustive enumeration of the (offset, count, result size, batch size) grid x statement kind x iteration mode; oracle = slice [s, s+n) of the unlimited result of the same statement (tie-aware), deleted-key set for DELETE",
    "level_text": "Bounded-exhaustive exploration: batch sizes {1,2,3,4,5,8} (thorough + {6,7,16}) x result sizes 0..3b+2 x offsets 0..r+2 x counts 0..r+2, plus "
                  "b=32 with r,s,n in {0,1,31,32,33,63,64,65,96,97}; this contains every combination in which offset or count equals a multiple of the "
                  "batch size, zero, and beyond the end. Each point is run for six statement kinds (plain, ORDER BY unique keys, ORDER BY with heavy ties, "
                  "aggregate with GROUP BY where the limit is pushed into the aggregate node, aggregate with ORDER BY, DELETE ... LIMIT) x {row, batch}, in "
                  "both spellings. The limited result must equal the slice of the unlimited result of the same statement in the same mode (with ties: "
                  "same length, same order keys position by position, rows a sub-multiset); for DELETE the removed keys and every key passed to "
                  "Delete/BatchDelete must be exactly the slice of the reference-filtered key list. Non-matching pairs are interleaved so that child "
                  "batches have varying sizes. rapid adds large random points (result sizes to 200, batch sizes to 64).",
    "level_note": "The unlimited result is itself compared with the reference-filtered list for the un-ordered kinds. Negative or huge LIMIT numbers are outside the domain."
                  " Later widening: counts and offsets near MaxInt64 ('everything after row s') in grid and sampled legs; the expected slice is computed without adding s and n.",
    "rule": "enumerated grid points x kind x mode x spelling (each once) + rapid points. Non-trivial = 0 < offset and offset+count < result size, or "
            "offset is a positive multiple of the batch size, or count is a positive multiple of the batch size; distinct = distinct grid points x kind x mode.",
    "assumptions": COMMON_ASSUMPTIONS,
    "legs": [
        {"test": "TestC08Grid", "kind": "enum", "quick": {"shards": 8}, "thorough": {"shards": 16}},
        {"test": "TestC08Sampled", "kind": "rapid", "quick": {"checks": 5000, "shards": 2}, "thorough": {"checks": 50000, "shards": 8}},
    ],
    "min_nontrivial": {"quick": 20000, "thorough": 100000},
}

PROPS["C09"] = {
    "level": "exploration",
    "design_ref": "DESIGN.md §4.9",
    "technique": "rapid-generated aggregate SELECTs over stores with colliding group tuples; independent reference fold (partition by tuple equality, per-group definitions of count/sum/min/max/avg/group_concat/json_arrayagg, arithmetic around aggregates)",
    "level_text": "Randomised exploration with an exact oracle: aggregate statements with 0-3 GROUP BY expressions (key, value, upper/lower/str/strlen/int of them, "
                  "bare or named), 1-3 aggregate fields with arithmetic around them and a WHERE that rejects some pairs are executed in both modes at "
                  "batch sizes {1,3,32}; the reference evaluates WHERE, group expressions and aggregate arguments on every pair in key order, partitions by "
                  "tuple equality (value and kind), emits groups in order of their first pair and computes every aggregate by its definition in scan order. "
                  "Engine rows must match row for row. A dedicated leg builds stores and tuples whose plain concatenations collide "
                  "(('a','bc') vs ('ab','c'), ('1','1x') vs ('11','x')).",
    "level_note": "Group columns are compared by content with the engine's textual rendering of an integer accepted as the integer; json_arrayagg is compared "
                  "structurally. Mixed int/float aggregate arguments, float group values and non-UTF-8 text under json_arrayagg are outside the domain. "
                  "Every non-aggregate select field is one of the GROUP BY expressions."
                  " Later widening: the reference reads numeric text and defines sum/avg/min/max of groups that mix integers and floats (min/max: by value, either kind accepted); float-valued and Boolean group columns; Boolean aggregate fields with a constant side; group values and scalar calls around aggregates (strlen(key) + count(1), str(count(1))); leg TestC09DynamicGroups groups by a JSON member that is a number, a text, a Boolean or null and compares group membership with equality of (kind, value)."
                  " Round 5: the Boolean aggregate field may sit under a !."
                  " Round 6: whole numbers beyond 2^53 and 2^63 (1e19, 2e19, -4e19) among the JSON numbers of TestC09DynamicGroups."
                  " Round 8: aggregates take the raw integer text over integer stores (one case in four), among them fixed-width decimals with leading zeros.",
    "rule": "rapid legs TestC09 (general) and TestC09Collide. Non-trivial = at least 2 groups and (a group with at least 2 pairs, or two distinct group "
            "tuples with equal concatenation); distinct = distinct (query, store, batch size).",
    "assumptions": COMMON_ASSUMPTIONS,
    "legs": [
        {"test": "TestC09", "kind": "rapid", "quick": {"checks": 12000, "shards": 3, "shrink": "15s"}, "thorough": {"checks": 300000, "shards": 10}},
        {"test": "TestC09Collide", "kind": "rapid", "quick": {"checks": 8000, "shards": 2, "shrink": "15s"}, "thorough": {"checks": 80000, "shards": 6}},
        {"test": "TestC09DynamicGroups", "kind": "rapid", "quick": {"checks": 5000, "shards": 1}, "thorough": {"checks": 80000, "shards": 4}},
    ],
    "min_nontrivial": {"quick": 2000, "thorough": 30000},
    "min_labels": {"colliding-tuples": 500},
}

PROPS["C10"] = {
    "level": "exploration",
    "design_ref": "DESIGN.md §4.10",
    "technique": "per-function argument pools enumerated exhaustively + rapid samples; independent re-implementation of each function from its README one-liner; constant and row-dependent forms x row/batch x select-field and WHERE positions; round-trip laws",
    "level_text": "Bounded-exhaustive exploration per function: upper/lower/strlen/str/int/float/is_int/is_float/substr over a pool of ASCII texts, integers to 10^6 of "
                  "both signs and exactly representable floats; split/join inverse laws over 8 part lists x 5 separators (split(join(sep,p..),sep)[i]=p_i, len=n, "
                  "join(sep, split(s,sep)[0..]) = s); list/int_list/ilist/float_list/flist and list of texts hold their arguments in order ([i] and len); "
                  "l2_distance/cosine_distance against their formulas (relative tolerance 1e-12) and an error value for vectors of different lengths; "
                  "[n] over every list producer and JSON arrays; json(text)[k1][k2].. navigation compared structurally. Every call is issued with constant "
                  "arguments (exercising the fold path at plan time) and with row-dependent arguments (argument stored in the pair and read back through "
                  "value / key / int(value) / split(value, ',') / json(value)[..]), in row and in batch mode, as a select field and - for comparable results - "
                  "inside WHERE compared with the literal of the documented value. rapid adds random texts, numbers, part lists, vectors and documents; a third leg "
                  "runs 23 call templates in which EVERY argument depends on the row (separator, positions, numbers taken from the key) over stores of 2-7 "
                  "pairs so that one chunk holds rows with different arguments.",
    "level_note": "Trusted: lib/refeval.go re-implementations. substr follows the README wording [start, end) with 0 <= start <= end. int()/float() of "
                  "non-numeric text, float-to-text rendering, overflow, out-of-range [n], missing JSON members and case mapping of non-ASCII text are outside the domain."
                  " Later widening: integers up to the int64 limits; every text argument also as value + '' and split(value, '|')[0] (another internal representation); text lists whose elements read as numbers stay text lists (the reference is type-based)."
                  " Round 5: every evaluable case is also run among neighbouring pairs (variations of the pair on which the reference defines the expression too) in one chunk of batch iteration, once written out and once with key and value reached through the names of other select fields: the value shown for a pair must not depend on its neighbours.",
    "rule": "enumerated (function, argument tuple, form) cases (each once) + rapid samples. Non-trivial = the case is inside the documented domain "
            "(the reference defines a value or a documented refusal); distinct = distinct (statement, pair).",
    "assumptions": COMMON_ASSUMPTIONS,
    "legs": [
        {"test": "TestC10Pools", "kind": "enum", "quick": {"shards": 2}, "thorough": {"shards": 2}},
        {"test": "TestC10Sampled", "kind": "rapid", "quick": {"checks": 15000, "shards": 3}, "thorough": {"checks": 400000, "shards": 12}},
        {"test": "TestC10Chunks", "kind": "rapid", "quick": {"checks": 6000, "shards": 3}, "thorough": {"checks": 100000, "shards": 8}},
    ],
    "min_nontrivial": {"quick": 5000, "thorough": 100000},
}

PROPS["C11"] = {
    "level": "exploration",
    "design_ref": "DESIGN.md §4.11",
    "technique": "rapid-generated (prior state, predicate, limit, batch size, poll pattern) with a model-map oracle and a call-log invariant; stateful rapid state machine (put/remove/delete/select histories) against a model map",
    "level_text": "Randomised exploration with a model oracle. Single-statement leg: prior states x predicates (key atoms that become point reads / prefixes / "
                  "ranges, AND/OR pairs of them, and the full core grammar) x optional limit n / limit s,n x batch size {1,2,3,32}, executed by a random word "
                  "over {Next, Batch} of length 1-5 on the same plan. Expected = keys of the reference-filtered prior state in key order sliced by the limit; "
                  "afterwards the store must equal prior minus expected with every surviving pair byte-identical, the call log must contain no Put/BatchPut, "
                  "and (scan-and-delete strategy) every key passed to Delete/BatchDelete must be in the expected set. History leg: rapid state machine with "
                  "actions put / remove / delete [limit] / select / point-select, each step in a random mode and batch size, invariant after every step: "
                  "full-scan equality of store and model map and SELECT rows equal the reference.",
    "level_note": "Trusted: reference evaluator, model map, snapshot cursors of the reference store (the property is stated for storages with snapshot cursors). Empty keys are outside the domain.",
    "rule": "rapid single statements + rapid state-machine histories (average 25 steps). Non-trivial (single) = 0 < |expected| < |prior|; "
            "non-trivial (history) = at least 2 writes, 1 select and 3 executed steps; distinct = distinct (statement, store, batch, polls) / distinct histories.",
    "assumptions": COMMON_ASSUMPTIONS,
    "legs": [
        {"test": "TestC11", "kind": "rapid", "quick": {"checks": 15000, "shards": 3, "shrink": "15s"}, "thorough": {"checks": 150000, "shards": 10}},
        {"test": "TestC11History", "kind": "rapid", "quick": {"checks": 1000, "shards": 3, "steps": 25, "shrink": "15s"}, "thorough": {"checks": 15000, "shards": 6, "steps": 30}},
    ],
    "min_nontrivial": {"quick": 3000, "thorough": 50000},
}

PROPS["C12"] = {
    "level": "exploration",
    "design_ref": "DESIGN.md §4.12",
    "technique": "rapid-generated PUT/REMOVE statements (duplicate keys, key-dependent values, failing expressions at any position) x poll patterns; model-map oracle + exactly-one-write-call invariant on the call log; shared state-machine histories",
    "level_text": "Randomised exploration with a model oracle: 1-6 pairs whose keys/values are literals, integers, concatenations and function calls (values may use "
                  "`key`, keys repeat), one time in four with an expression that fails at evaluation (division by a computed zero, distance of vectors of "
                  "different length) placed first, in the middle or last; REMOVE symmetrical. The finished plan is polled with a random word over {Next, Batch}. "
                  "Store afterwards = prior overwritten in order by the reference-evaluated pairs; the log shows exactly one Put (n=1) or one BatchPut with the n "
                  "pairs in order - or no storage call at all and an error when any expression fails; building the plan touches no storage; later polls return "
                  "end-of-stream and add nothing; a following select * where key = k sees the model's value. A metamorphic leg (no reference evaluator; key "
                  "expressions may mention `key` too) demands that `put p1, .., pn` issues exactly the writes of the n statements `put p1`; ..; `put pn` "
                  "executed in order, so no pair can depend on its neighbours. Histories as in C11.",
    "level_note": "Numbers are integers (float rendering is unspecified). Empty keys are outside the domain."
                  " Leg TestC12FloatKeys: float-valued key expressions (the reference has no text form for floats): remove e must delete exactly the key that put (e, ..) wrote. Key expressions no longer mention the key keyword (refused by the engine since repair 56 of DESIGN 8.1; C14 asserts the refusal)."
                  " Round 5: one PUT in ten has the key keyword inside the key expression of one of its pairs (any position): it must be refused before any storage call (spec.md: key only generates the value); one statement in six uses a member of a constant JSON object as an operand (only text members can be written)."
                  " Round 7: integer literals with leading zeros (007 is the number 7) - in a third of the integer PUT keys and values, and now and then wherever an integer literal is drawn."
                  " Round 10: every case polled more than once is repeated against a store that refuses the write: the write is attempted exactly once however the plan is polled on, and nothing is stored.",
    "rule": "rapid single statements + histories. Non-trivial = a duplicate key, a value that depends on key, a REMOVE of an existing key, or a failing "
            "expression after a succeeding one; distinct = distinct (statement, prior state, polls).",
    "assumptions": COMMON_ASSUMPTIONS,
    "legs": [
        {"test": "TestC12", "kind": "rapid", "quick": {"checks": 15000, "shards": 3}, "thorough": {"checks": 150000, "shards": 10}},
        {"test": "TestC12Independent", "kind": "rapid", "quick": {"checks": 6000, "shards": 2}, "thorough": {"checks": 100000, "shards": 6}},
        {"test": "TestC12History", "kind": "rapid", "quick": {"checks": 1000, "shards": 2, "steps": 25, "shrink": "15s"}, "thorough": {"checks": 15000, "shards": 6, "steps": 30}},
        {"test": "TestC12FloatKeys", "kind": "rapid", "quick": {"checks": 4000, "shards": 1}, "thorough": {"checks": 60000, "shards": 4}},
    ],
    "min_nontrivial": {"quick": 3000, "thorough": 50000},
}

PROPS["C13"] = {
    "level": "fault_enumeration",
    "design_ref": "DESIGN.md §4.13",
    "technique": "for each rapid-generated statement and store, record the fault-free storage call sequence, then inject a single error at EVERY position of it (row and batch mode); invariants over the call log and errors.Is identity of the returned error",
    "level_text": "Exhaustive single-fault enumeration per statement: statements of every kind and access path (point reads, prefix and range scans, full scans; "
                  "projection, ORDER BY, aggregates, LIMIT; PUT with 1 and n pairs, REMOVE, DELETE as scan-and-delete with and without LIMIT and as the "
                  "direct-removal shortcut) are first run fault-free over an instrumented store, which records the N storage calls; then for every i in [0, N), "
                  "in row mode and in batch mode, the run is repeated with call i (Cursor, Seek, Next, Get, Put, BatchPut, Delete or BatchDelete) returning an "
                  "injected error. Whichever of BuildPlan / Next / Batch was running must return an error e with errors.Is(e, injected), the log must end at "
                  "entry i (no further storage call), and the drain must not end normally with a shortened result. Fault-free legs assert that SELECT issues "
                  "no mutating call at plan or execution time, and that statically rejected statements (C14's mutants) issue no storage call at all.",
    "level_note": "One fault per run (no fault sequences). The faulted operation is not applied by the store. The harness stops polling at the first error, as a caller would."
                  " Round 9: the store hands out the SAME slices on every read, each with guarded spare capacity behind its content (canary bytes); after every SELECT the slices must still read what is stored and the spare capacity must be untouched - an in-place write or append into memory of the storage is found without relying on a second reader."
                  " Round 10: after a mutating statement has reported the injected fault its plan is polled three more times (both forms); no state-changing storage call may follow (what a SELECT reads when polled past an error is not judged). Round 11: the injected fault comes in three guises, a private error, one that wraps io.EOF and one that wraps io.ErrUnexpectedEOF (the contract signals the end of a cursor with a nil key, never with an error).",
    "rule": "rapid statements x stores (1-10 pairs) x batch size; per statement ALL fault positions x {row, batch} are enumerated. "
            "Non-trivial = the fault-free run makes at least 3 storage calls and the faulted call is not the last one; "
            "distinct = distinct (statement, store, batch size, mode, fault index).",
    "assumptions": COMMON_ASSUMPTIONS,
    "legs": [
        {"test": "TestC13Faults", "kind": "rapid", "quick": {"checks": 1500, "shards": 4, "shrink": "15s"}, "thorough": {"checks": 40000, "shards": 16}},
        {"test": "TestC13Rejected", "kind": "rapid", "quick": {"checks": 2000, "shards": 1}, "thorough": {"checks": 50000, "shards": 4}},
    ],
    "min_nontrivial": {"quick": 5000, "thorough": 100000},
}

PROPS["C19"] = {
    "level": "exploration",
    "design_ref": "DESIGN.md §4.19",
    "technique": "rapid-generated statement sets on 2-16 goroutines under the Go race detector (happens-before analysis of the executed accesses) + per-goroutine result equals sequential result; GOMAXPROCS and repeat counts drawn",
    "level_text": "Stress exploration, not schedule enumeration: rapid draws 2-16 statements of all plan kinds (aggregate and alias statements, which mutate their own "
                  "AST and context, are favoured; one statement in four is repeated on a second goroutine), GOMAXPROCS in {1,2,4,16} and 1-4 repeats. Each "
                  "goroutine parses, plans and drains its own statement with its own ExecuteCtx; readers share one mutex-protected frozen store, every "
                  "writing statement gets a private copy. The check binary is built with -race: any report fails the run (the race detector reports "
                  "unsynchronised conflicting accesses regardless of whether the interleaving produced a wrong value, so shared mutable library state is "
                  "found as soon as two goroutines touch it once). Each goroutine's rows, error and resulting store must equal what the same statement "
                  "produced in a preceding sequential run.",
    "level_note": "The harness does not own the Go scheduler: schedules are sampled. A value-level interference that needs one rare interleaving and involves no "
                  "data race can be missed. Package switches (PlanBatchSize, EnableFieldCache) are set before the goroutines start and only read afterwards. "
                  "A race failure is not shrinkable; the statement set is written as the replay."
                  " Later widening: one statement in ten uses the short form without a select part."
                  " Round 5: aggregate statements whose quantile percent / group_concat separator is given through a chain of named constant fields (evaluated when the plan is built)."
                  " Round 6: what a plan says about itself (Explain lines, field names and types) is part of the compared outcome; one statement in ten uses names the process has not printed before (in plan descriptions and in refusal messages)."
                  " Round 9: the store that all readers share hands out the same slices to every one of them (guarded spare capacity, checked after the statements; the race detector sees the rest)."
                  " Round 12: one statement in eleven orders by a JSON member (`json(value or a literal document)['m'] as f1 .. order by f1, key`): values of dynamic kind in a column typed as text are rendered by the comparator.",
    "rule": "rapid statement sets x GOMAXPROCS x repeats. Non-trivial = at least 2 goroutines and at least 2 of the statements are aggregate or alias "
            "statements; distinct = distinct (statement set, modes, GOMAXPROCS, store).",
    "assumptions": COMMON_ASSUMPTIONS + ["the Go race detector's happens-before analysis is trusted"],
    "legs": [
        {"test": "TestC19", "kind": "rapid", "race": True, "quick": {"checks": 400, "shards": 4, "shrink": "10s"}, "thorough": {"checks": 10000, "shards": 8}},
    ],
    "min_nontrivial": {"quick": 200, "thorough": 5000},
    "timeout": {"quick": 900, "thorough": 7200},
}
