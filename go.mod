module verif

go 1.23

toolchain go1.23.5

require (
	github.com/c4pt0r/kvql v0.0.0
	pgregory.net/rapid v1.3.0
)

require github.com/beorn7/perks v1.0.1 // indirect

replace github.com/c4pt0r/kvql => /repo
