package lib

import (
	"bytes"
	"errors"
	"fmt"
	"io"
	"sort"
	"sync"

	"github.com/c4pt0r/kvql"
)

// Pair is one stored key/value pair. Text is kept as Go strings (byte
// sequences, not necessarily UTF-8).
type Pair struct {
	K string `json:"k"`
	V string `json:"v"`
}

// Store is the reference storage: a sorted in-memory map with snapshot
// cursors. It implements the contract read off scan_plan.go / memkv:
// Cursor() is positioned before the first key, Seek(k) positions at the first
// key >= k, Next() returns the next pair or a nil key at the end, Get returns
// nil for a missing key.
type Store struct {
	mu sync.Mutex
	m  map[string]string
	// Shared: hand out the SAME byte slices for a pair on every read (as a
	// storage that keeps its data in memory does), each with spare capacity
	// behind its content. A reader that writes into such a slice - or appends
	// to it in place - writes into memory that belongs to the storage and to
	// every other reader: MemoryIntact tells, and so does the race detector.
	Shared bool
	shared map[string]*sharedPair
}

type sharedPair struct {
	k, v []byte
	text string // the stored value the slices were made for
}

const canaryLen = 24

func withCanary(text string) []byte {
	b := make([]byte, len(text), len(text)+canaryLen)
	copy(b, text)
	spare := b[len(text):cap(b)]
	for i := range spare {
		spare[i] = 0xA5
	}
	return b
}

// sharedOf returns the shared slices of a stored pair (s.mu held).
func (s *Store) sharedOf(k, v string) *sharedPair {
	if s.shared == nil {
		s.shared = map[string]*sharedPair{}
	}
	sp, ok := s.shared[k]
	if !ok || sp.text != v {
		sp = &sharedPair{k: withCanary(k), v: withCanary(v), text: v}
		s.shared[k] = sp
	}
	return sp
}

// MemoryIntact checks every slice that was handed out: its content is still
// the stored text and the spare capacity behind it is untouched. "" = intact.
func (s *Store) MemoryIntact() string {
	s.mu.Lock()
	defer s.mu.Unlock()
	for k, sp := range s.shared {
		want, stored := s.m[k]
		check := func(what string, b []byte, text string) string {
			if string(b) != text {
				return fmt.Sprintf("the %s slice handed out for key %q now reads %q, the storage holds %q", what, k, b, text)
			}
			for _, c := range b[len(b):cap(b)] {
				if c != 0xA5 {
					return fmt.Sprintf("the spare capacity behind the %s slice of key %q was written to: %q", what, k, b[len(b):cap(b)])
				}
			}
			return ""
		}
		if m := check("key", sp.k, k); m != "" {
			return m
		}
		if stored && sp.text == want {
			if m := check("value", sp.v, want); m != "" {
				return m
			}
		}
	}
	return ""
}

func NewStore(pairs []Pair) *Store {
	s := &Store{m: make(map[string]string, len(pairs))}
	for _, p := range pairs {
		s.m[p.K] = p.V
	}
	return s
}

func (s *Store) Clone() *Store {
	s.mu.Lock()
	defer s.mu.Unlock()
	n := &Store{m: make(map[string]string, len(s.m))}
	for k, v := range s.m {
		n.m[k] = v
	}
	return n
}

// Pairs returns the content in ascending byte-wise key order.
func (s *Store) Pairs() []Pair {
	s.mu.Lock()
	defer s.mu.Unlock()
	return s.pairsLocked()
}

func (s *Store) pairsLocked() []Pair {
	ret := make([]Pair, 0, len(s.m))
	for k, v := range s.m {
		ret = append(ret, Pair{k, v})
	}
	sort.Slice(ret, func(i, j int) bool { return ret[i].K < ret[j].K })
	return ret
}

func (s *Store) Len() int {
	s.mu.Lock()
	defer s.mu.Unlock()
	return len(s.m)
}

func (s *Store) Get(key []byte) ([]byte, error) {
	s.mu.Lock()
	defer s.mu.Unlock()
	v, ok := s.m[string(key)]
	if !ok {
		return nil, nil
	}
	if s.Shared {
		return s.sharedOf(string(key), v).v, nil
	}
	return []byte(v), nil
}

func (s *Store) Put(key, value []byte) error {
	s.mu.Lock()
	defer s.mu.Unlock()
	s.m[string(key)] = string(value)
	return nil
}

func (s *Store) BatchPut(kvs []kvql.KVPair) error {
	s.mu.Lock()
	defer s.mu.Unlock()
	for _, kv := range kvs {
		s.m[string(kv.Key)] = string(kv.Value)
	}
	return nil
}

func (s *Store) Delete(key []byte) error {
	s.mu.Lock()
	defer s.mu.Unlock()
	delete(s.m, string(key))
	return nil
}

func (s *Store) BatchDelete(keys [][]byte) error {
	s.mu.Lock()
	defer s.mu.Unlock()
	for _, k := range keys {
		delete(s.m, string(k))
	}
	return nil
}

func (s *Store) Cursor() (kvql.Cursor, error) {
	s.mu.Lock()
	defer s.mu.Unlock()
	c := &storeCursor{pairs: s.pairsLocked()}
	if s.Shared {
		for _, p := range c.pairs {
			c.shared = append(c.shared, s.sharedOf(p.K, p.V))
		}
	}
	return c, nil
}

type storeCursor struct {
	pairs  []Pair
	shared []*sharedPair // same length as pairs when the store shares its memory
	pos    int
}

func (c *storeCursor) Seek(prefix []byte) error {
	c.pos = sort.Search(len(c.pairs), func(i int) bool {
		return bytes.Compare([]byte(c.pairs[i].K), prefix) >= 0
	})
	return nil
}

func (c *storeCursor) Next() ([]byte, []byte, error) {
	if c.pos >= len(c.pairs) {
		return nil, nil, nil
	}
	p := c.pairs[c.pos]
	c.pos++
	if c.shared != nil {
		sp := c.shared[c.pos-1]
		return sp.k, sp.v, nil
	}
	return []byte(p.K), []byte(p.V), nil
}

// ---------------------------------------------------------------------------
// Instrumented wrapper: call log + single fault injection.

type StoreCall struct {
	Op   string   `json:"op"`             // Get Put BatchPut Delete BatchDelete Cursor Seek Next
	Keys []string `json:"keys,omitempty"` // arguments (keys; for puts k then v alternating)
	Ret  string   `json:"ret,omitempty"`  // key returned by Next (empty at end)
	End  bool     `json:"end,omitempty"`  // Next returned end-of-stream
	Err  bool     `json:"err,omitempty"`  // this call returned the injected fault
}

var ErrInjected = errors.New("injected storage fault")

// faultErr is the injected fault in the guise of an error a real storage may
// hand up: it IS ErrInjected and, for ErrKind 1 and 2, also wraps io.EOF /
// io.ErrUnexpectedEOF (a dropped connection). The Storage contract signals the
// end of a cursor with a nil key, never with an error, so these are faults too.
type faultErr struct{ also error }

func (e faultErr) Error() string {
	if e.also == nil {
		return ErrInjected.Error()
	}
	return ErrInjected.Error() + ": " + e.also.Error()
}
func (e faultErr) Is(t error) bool { return t == ErrInjected }
func (e faultErr) Unwrap() error   { return e.also }

func (in *Instr) fault() error {
	switch in.ErrKind {
	case 1:
		return faultErr{io.EOF}
	case 2:
		return faultErr{io.ErrUnexpectedEOF}
	}
	return ErrInjected
}

type Instr struct {
	S       *Store
	mu      sync.Mutex
	Log     []StoreCall
	FailAt  int // index of the call that fails; -1 = none
	ErrKind int // guise of the injected fault (see faultErr)
	Failed  bool
	AfterFn func() // optional hook after each call (unused by default)
}

func NewInstr(s *Store) *Instr {
	return &Instr{S: s, FailAt: -1}
}

// record appends the call and tells whether it must fail.
func (in *Instr) record(c StoreCall) (int, bool) {
	in.mu.Lock()
	defer in.mu.Unlock()
	idx := len(in.Log)
	fail := idx == in.FailAt
	if fail {
		c.Err = true
		in.Failed = true
	}
	in.Log = append(in.Log, c)
	return idx, fail
}

func (in *Instr) setRet(idx int, ret string, end bool) {
	in.mu.Lock()
	defer in.mu.Unlock()
	in.Log[idx].Ret = ret
	in.Log[idx].End = end
}

func (in *Instr) Calls() []StoreCall {
	in.mu.Lock()
	defer in.mu.Unlock()
	ret := make([]StoreCall, len(in.Log))
	copy(ret, in.Log)
	return ret
}

func (in *Instr) Get(key []byte) ([]byte, error) {
	if _, fail := in.record(StoreCall{Op: "Get", Keys: []string{string(key)}}); fail {
		return nil, in.fault()
	}
	return in.S.Get(key)
}

func (in *Instr) Put(key, value []byte) error {
	if _, fail := in.record(StoreCall{Op: "Put", Keys: []string{string(key), string(value)}}); fail {
		return in.fault()
	}
	return in.S.Put(key, value)
}

func (in *Instr) BatchPut(kvs []kvql.KVPair) error {
	keys := make([]string, 0, 2*len(kvs))
	for _, kv := range kvs {
		keys = append(keys, string(kv.Key), string(kv.Value))
	}
	if _, fail := in.record(StoreCall{Op: "BatchPut", Keys: keys}); fail {
		return in.fault()
	}
	return in.S.BatchPut(kvs)
}

func (in *Instr) Delete(key []byte) error {
	if _, fail := in.record(StoreCall{Op: "Delete", Keys: []string{string(key)}}); fail {
		return in.fault()
	}
	return in.S.Delete(key)
}

func (in *Instr) BatchDelete(keys [][]byte) error {
	ks := make([]string, len(keys))
	for i, k := range keys {
		ks[i] = string(k)
	}
	if _, fail := in.record(StoreCall{Op: "BatchDelete", Keys: ks}); fail {
		return in.fault()
	}
	return in.S.BatchDelete(keys)
}

func (in *Instr) Cursor() (kvql.Cursor, error) {
	if _, fail := in.record(StoreCall{Op: "Cursor"}); fail {
		return nil, in.fault()
	}
	c, err := in.S.Cursor()
	if err != nil {
		return nil, err
	}
	return &instrCursor{in: in, c: c}, nil
}

type instrCursor struct {
	in *Instr
	c  kvql.Cursor
}

func (c *instrCursor) Seek(prefix []byte) error {
	if _, fail := c.in.record(StoreCall{Op: "Seek", Keys: []string{string(prefix)}}); fail {
		return c.in.fault()
	}
	return c.c.Seek(prefix)
}

func (c *instrCursor) Next() ([]byte, []byte, error) {
	idx, fail := c.in.record(StoreCall{Op: "Next"})
	if fail {
		return nil, nil, c.in.fault()
	}
	k, v, err := c.c.Next()
	c.in.setRet(idx, string(k), k == nil)
	return k, v, err
}

// IsMutation tells whether an op can change state.
func IsMutation(op string) bool {
	switch op {
	case "Put", "BatchPut", "Delete", "BatchDelete":
		return true
	}
	return false
}
