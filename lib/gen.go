package lib

import (
	"fmt"
	"math"
	"sort"
	"strconv"
	"strings"

	"pgregory.net/rapid"
)

// ---------------------------------------------------------------------------
// Stores

type StoreKind string

const (
	KInt   StoreKind = "int"   // values are decimal integers
	KFloat StoreKind = "float" // values are exactly representable decimals (k/4)
	KWord  StoreKind = "word"  // values are short words
	KCSV   StoreKind = "csv"   // values are comma separated lists
	KJSON  StoreKind = "json"  // values are JSON objects
)

var AllKinds = []StoreKind{KInt, KFloat, KWord, KCSV, KJSON}

func genKey(t *rapid.T, exotic bool, long bool) string {
	n := rapid.IntRange(1, 3).Draw(t, "keylen")
	if long {
		n = rapid.IntRange(1, 5).Draw(t, "keylenLong")
	}
	var sb strings.Builder
	for i := 0; i < n; i++ {
		if exotic && rapid.IntRange(0, 5).Draw(t, "exoticByte") == 0 {
			sb.WriteByte(rapid.SampledFrom([]byte{0x80, 0xff, '0', '9', 'A', 'z', '_', ' '}).Draw(t, "xb"))
		} else {
			sb.WriteByte(rapid.SampledFrom([]byte{'a', 'b', 'c'}).Draw(t, "kb"))
		}
	}
	return sb.String()
}

var quarterTexts = []string{"0", "0.25", "0.5", "0.75", "1", "1.5", "2", "2.25", "2.5", "3", "3.75", "4", "5.5", "7", "10", "-0.5", "-1.25", "-2"}
var wordPool = []string{"", "a", "b", "c", "ab", "bc", "abc", "A", "Ab", "aa", "ba", "x1", "12", "c", "bc"}

// extremeInts: integers whose differences and sums leave the int64 range
var extremeInts = []string{"9000000000000000000", "-9000000000000000000", "9223372036854775807", "-9223372036854775808",
	"4611686018427387904", "-4611686018427387905", "1099511627776", "-2147483649",
	// neighbours that a float64 cannot tell apart (integers are compared exactly)
	"9223372036854775806", "9007199254740993", "9007199254740992"}

func genValue(t *rapid.T, kind StoreKind, extreme, inexactFloats bool) string {
	switch kind {
	case KInt:
		if extreme && rapid.IntRange(0, 2).Draw(t, "intExtreme") == 0 {
			return rapid.SampledFrom(extremeInts).Draw(t, "iext")
		}
		if rapid.IntRange(0, 9).Draw(t, "intNeg") == 0 {
			return strconv.Itoa(-rapid.IntRange(1, 9).Draw(t, "ineg"))
		}
		if rapid.IntRange(0, 9).Draw(t, "intPadded") == 0 {
			// a fixed-width counter: decimal digits with leading zeros (010 is ten)
			return rapid.SampledFrom([]string{"010", "025", "007", "008", "0100", "09", "00"}).Draw(t, "ipadded")
		}
		return strconv.Itoa(rapid.IntRange(0, 12).Draw(t, "ival"))
	case KFloat:
		if inexactFloats && rapid.IntRange(0, 2).Draw(t, "floatInexact") == 0 {
			return rapid.SampledFrom([]string{"0.1", "0.3", "0.7", "2.675", "1.1", "0.2"}).Draw(t, "finexact")
		}
		return rapid.SampledFrom(quarterTexts).Draw(t, "fval")
	case KWord:
		return rapid.SampledFrom(wordPool).Draw(t, "wval")
	case KCSV:
		n := rapid.IntRange(1, 4).Draw(t, "csvn")
		parts := make([]string, n)
		numeric := rapid.Bool().Draw(t, "csvNumeric")
		for i := range parts {
			if numeric {
				parts[i] = strconv.Itoa(rapid.IntRange(0, 9).Draw(t, "csvi"))
			} else {
				parts[i] = rapid.SampledFrom([]string{"a", "b", "ab", "c", ""}).Draw(t, "csvw")
			}
		}
		return strings.Join(parts, ",")
	case KJSON:
		return genJSONText(t)
	}
	return ""
}

func genJSONText(t *rapid.T) string {
	a := rapid.IntRange(0, 9).Draw(t, "ja")
	s := rapid.SampledFrom([]string{"x", "y", "xy", ""}).Draw(t, "js")
	n := rapid.IntRange(0, 3).Draw(t, "jn")
	arr := make([]string, n)
	for i := range arr {
		arr[i] = strconv.Itoa(rapid.IntRange(0, 5).Draw(t, "jarr"))
	}
	inner := rapid.SampledFrom([]string{"p", "q"}).Draw(t, "jinner")
	return fmt.Sprintf(`{"a": %d, "s": "%s", "arr": [%s], "o": {"k": "%s", "n": %d}, "b": %v}`,
		a, s, strings.Join(arr, ", "), inner, a+1, a%2 == 0)
}

// GenStore draws a store of the given kind with about n pairs (duplicate key
// draws collapse, so the result may be smaller).
func GenStore(t *rapid.T, kind StoreKind, n int) []Pair {
	exotic := rapid.IntRange(0, 7).Draw(t, "exoticKeys") == 0
	m := map[string]string{}
	extreme := kind == KInt && rapid.IntRange(0, 5).Draw(t, "extremeValues") == 0
	// one float store in four holds values that are not exactly representable
	// (0.1, 0.3): (x * 3) * 7 and x * 21 differ in the last place for them
	inexact := kind == KFloat && rapid.IntRange(0, 3).Draw(t, "inexactValues") == 0
	for i := 0; i < n; i++ {
		k := genKey(t, exotic, n > 20)
		m[k] = genValue(t, kind, extreme, inexact)
	}
	ret := make([]Pair, 0, len(m))
	for k, v := range m {
		ret = append(ret, Pair{k, v})
	}
	sort.Slice(ret, func(i, j int) bool { return ret[i].K < ret[j].K })
	return ret
}

// GenStoreSize draws a store size: 0 to a few batches.
func GenStoreSize(t *rapid.T) int {
	return rapid.SampledFrom([]int{0, 1, 2, 3, 4, 6, 8, 11, 16, 24, 40, 70, 130}).Draw(t, "storeSize")
}

func GenKind(t *rapid.T) StoreKind {
	return rapid.SampledFrom(AllKinds).Draw(t, "storeKind")
}

func GenBatchSize(t *rapid.T) int {
	return rapid.SampledFrom([]int{1, 2, 3, 5, 32}).Draw(t, "batchSize")
}

// ---------------------------------------------------------------------------
// Core predicate language (C01 and everything that needs an exact oracle)

type GenCtx struct {
	Kind  StoreKind
	Pairs []Pair
	// Refs: aliases that may be used, by dynamic type.
	Refs map[Ty][]string
	Defs map[string]*Node
	// NoValue forbids the value keyword (PUT), NoKey forbids key (REMOVE)
	NoValue, NoKey bool
	// Exotic adds constructs whose value the reference evaluator does not
	// define (substr, JSON access, distances, conversions of arbitrary text,
	// row-dependent divisors, invalid patterns): differential checks only
	Exotic       bool
	MixedNumeric bool
	// RefBias: percentage of expression draws that use an alias of the wanted
	// type when one is in scope
	RefBias int
}

// biasedRef returns a reference to an alias of type ty with probability RefBias%.
func (c *GenCtx) biasedRef(t *rapid.T, ty Ty) *Node {
	if c.RefBias <= 0 {
		return nil
	}
	refs := c.refsOf(ty)
	if len(refs) == 0 {
		return nil
	}
	if rapid.IntRange(0, 99).Draw(t, "useRef") >= c.RefBias {
		return nil
	}
	return Ref(rapid.SampledFrom(refs).Draw(t, "biasedRef"), ty)
}

func (c *GenCtx) refsOf(t Ty) []string {
	if c.Refs == nil {
		return nil
	}
	return c.Refs[t]
}

var regexPool = []string{"^a", "b$", "a.", "[ab]+", "^$", "a|b", "^[0-9]+$", "c", "^ab?c*$", "."}

// textLiteral draws a literal that is likely to sit on a boundary: a stored
// key or value, a prefix of one, or an immediate neighbour.
func (c *GenCtx) textLiteral(t *rapid.T) string {
	if len(c.Pairs) > 0 && rapid.IntRange(0, 3).Draw(t, "litFromStore") != 0 {
		p := rapid.SampledFrom(c.Pairs).Draw(t, "litPair")
		s := p.K
		if c.Kind != KJSON && rapid.IntRange(0, 3).Draw(t, "litFromValue") == 0 {
			s = p.V
		}
		switch rapid.IntRange(0, 4).Draw(t, "litVariant") {
		case 0:
			if len(s) > 0 {
				s = s[:rapid.IntRange(0, len(s)-1).Draw(t, "litPrefixLen")]
			}
		case 1:
			s = s + "a"
		case 2:
			if len(s) > 0 && s[len(s)-1] < 0x7e && s[len(s)-1] >= 0x20 {
				s = s[:len(s)-1] + string(s[len(s)-1]+1)
			}
		}
		if _, ok := Quote(s); ok {
			return s
		}
	}
	return rapid.SampledFrom([]string{"", "a", "ab", "b", "ba", "bb", "abc", "c", "1", "5", "A"}).Draw(t, "litPool")
}

func (c *GenCtx) GenText(t *rapid.T, depth int) *Node {
	if r := c.biasedRef(t, TyText); r != nil {
		return r
	}
	if c.Exotic && depth > 0 && rapid.IntRange(0, 4).Draw(t, "exoticText") == 0 {
		return c.exoticText(t, depth)
	}
	max := 7
	if depth <= 0 {
		max = 2
	}
	for {
		switch rapid.IntRange(0, max).Draw(t, "textForm") {
		case 0:
			if c.NoKey {
				continue
			}
			return Key()
		case 1:
			if c.NoValue {
				continue
			}
			return Value()
		case 2:
			return Str(c.textLiteral(t))
		case 3:
			f := rapid.SampledFrom([]string{"upper", "lower"}).Draw(t, "caseFn")
			return Call(f, c.GenText(t, depth-1))
		case 4:
			return Bin("+", c.GenText(t, depth-1), c.GenText(t, depth-1))
		case 5:
			return Call("str", c.GenInt(t, depth-1))
		case 6:
			if refs := c.refsOf(TyText); len(refs) > 0 {
				return Ref(rapid.SampledFrom(refs).Draw(t, "textRef"), TyText)
			}
			return Str(c.textLiteral(t))
		case 7:
			n := rapid.IntRange(1, 3).Draw(t, "joinN")
			args := []*Node{Str(rapid.SampledFrom([]string{",", "-", "", "ab"}).Draw(t, "joinSep"))}
			for i := 0; i < n; i++ {
				if rapid.Bool().Draw(t, "joinInt") {
					args = append(args, c.GenInt(t, depth-1))
				} else {
					args = append(args, c.GenText(t, depth-1))
				}
			}
			return Call("join", args...)
		}
	}
}

func (c *GenCtx) GenInt(t *rapid.T, depth int) *Node {
	if r := c.biasedRef(t, TyInt); r != nil {
		return r
	}
	if c.Exotic && depth > 0 && rapid.IntRange(0, 4).Draw(t, "exoticInt") == 0 {
		return c.exoticInt(t, depth)
	}
	max := 6
	if depth <= 0 {
		max = 2
	}
	for {
		switch rapid.IntRange(0, max).Draw(t, "intForm") {
		case 0:
			if rapid.IntRange(0, 7).Draw(t, "intSpelled") == 0 {
				return SpelledInt(int64(rapid.IntRange(0, 12).Draw(t, "intLit")), rapid.IntRange(1, 2).Draw(t, "intZeros"))
			}
			return Int(int64(rapid.IntRange(0, 12).Draw(t, "intLit")))
		case 1:
			if c.Kind == KInt && !c.NoValue {
				return Call("int", Value())
			}
			if c.NoKey {
				return Int(int64(rapid.IntRange(0, 5).Draw(t, "intLit2")))
			}
			return Call("strlen", Key())
		case 2:
			return Call("strlen", c.GenText(t, 0))
		case 3:
			op := rapid.SampledFrom([]string{"+", "-", "*"}).Draw(t, "intOp")
			return Bin(op, c.GenInt(t, depth-1), c.GenInt(t, depth-1))
		case 4:
			return Bin("/", c.GenInt(t, depth-1), Int(int64(rapid.IntRange(1, 5).Draw(t, "intDivisor"))))
		case 5:
			if refs := c.refsOf(TyInt); len(refs) > 0 {
				return Ref(rapid.SampledFrom(refs).Draw(t, "intRef"), TyInt)
			}
			if rapid.Bool().Draw(t, "intOfText") {
				return Call("int", Str(rapid.SampledFrom([]string{"0", "2", "7", "12"}).Draw(t, "intOfTextLit")))
			}
			return Int(int64(rapid.IntRange(0, 12).Draw(t, "intLit3")))
		case 6:
			if c.Kind == KCSV && !c.NoValue {
				return Call("len", Call("split", Value(), Str(",")))
			}
			return Call("strlen", c.GenText(t, depth-1))
		}
	}
}

var floatLits = []string{"0.5", "1.5", "2.0", "0.25", "2.5", "3.0", "0.75", "10.0"}

func (c *GenCtx) GenFloat(t *rapid.T, depth int) *Node {
	if r := c.biasedRef(t, TyFloat); r != nil {
		return r
	}
	if c.Exotic && depth > 0 && rapid.IntRange(0, 4).Draw(t, "exoticFloat") == 0 {
		return c.exoticFloat(t, depth)
	}
	max := 5
	if depth <= 0 {
		max = 1
	}
	for {
		switch rapid.IntRange(0, max).Draw(t, "floatForm") {
		case 0:
			return Float(rapid.SampledFrom(floatLits).Draw(t, "floatLit"))
		case 1:
			if (c.Kind == KFloat || c.Kind == KInt) && !c.NoValue {
				return Call("float", Value())
			}
			return Float(rapid.SampledFrom(floatLits).Draw(t, "floatLit2"))
		case 2:
			op := rapid.SampledFrom([]string{"+", "-", "*"}).Draw(t, "floatOp")
			l := c.GenFloat(t, depth-1)
			var r *Node
			if rapid.Bool().Draw(t, "mixedArith") {
				r = c.GenInt(t, depth-1)
			} else {
				r = c.GenFloat(t, depth-1)
			}
			if rapid.Bool().Draw(t, "swapOperands") {
				l, r = r, l
			}
			return Bin(op, l, r)
		case 3:
			d := rapid.SampledFrom([]string{"2.0", "4.0", "0.5", "0.25"}).Draw(t, "floatDivisor")
			var l *Node
			if rapid.Bool().Draw(t, "intOverFloat") {
				l = c.GenInt(t, depth-1)
			} else {
				l = c.GenFloat(t, depth-1)
			}
			return Bin("/", l, Float(d))
		case 4:
			return Bin("/", c.GenFloat(t, depth-1), Int(int64(rapid.SampledFrom([]int{1, 2, 4}).Draw(t, "floatIntDivisor"))))
		case 5:
			if refs := c.refsOf(TyFloat); len(refs) > 0 {
				return Ref(rapid.SampledFrom(refs).Draw(t, "floatRef"), TyFloat)
			}
			// a constant conversion call (folded when the plan is built); whole
			// numbers included: the float 3 must not become the integer 3
			if rapid.Bool().Draw(t, "floatOfInt") {
				return Call("float", Int(int64(rapid.IntRange(0, 4).Draw(t, "floatOfIntLit"))))
			}
			return Call("float", Str(rapid.SampledFrom([]string{"2", "3", "2.5", "0.5", "10"}).Draw(t, "floatOfText")))
		}
	}
}

func (c *GenCtx) GenNum(t *rapid.T, depth int) *Node {
	if rapid.IntRange(0, 2).Draw(t, "numIsFloat") == 0 {
		return c.GenFloat(t, depth)
	}
	return c.GenInt(t, depth)
}

// NumberLiteral writes a non-negative number down as a literal that reads
// back as exactly that number of that kind (nil when it cannot be written).
func NumberLiteral(v any) *Node {
	switch x := v.(type) {
	case int64:
		if x >= 0 {
			return Int(x)
		}
	case float64:
		if x >= 0 && !math.Signbit(x) && x < 1e15 { // (-0 is >= 0 and is written with a sign)
			t := strconv.FormatFloat(x, 'f', -1, 64)
			if !strings.Contains(t, ".") {
				t += ".0"
			}
			if len(t) <= 22 {
				return Float(t)
			}
		}
	}
	return nil
}

func isBareField(n *Node, k string) bool { return n.K == k }

// KeyAtom draws an atom that constrains the key by a literal (literal on
// either side): the shapes the scan-range optimizer reasons about.
func (c *GenCtx) KeyAtom(t *rapid.T) *Node {
	lit := func() *Node {
		s := c.textLiteral(t)
		if len(s) >= 2 && rapid.IntRange(0, 7).Draw(t, "litAsConstExpr") == 0 {
			// a constant expression that folds to the literal before planning
			cut := rapid.IntRange(1, len(s)-1).Draw(t, "litCut")
			if _, ok := Quote(s[:cut]); ok {
				if _, ok := Quote(s[cut:]); ok {
					return Bin("+", Str(s[:cut]), Str(s[cut:]))
				}
			}
		}
		if isASCIILower(s) && rapid.IntRange(0, 15).Draw(t, "litAsConstCall") == 0 {
			return Call("lower", Str(asciiUpper(s)))
		}
		return Str(s)
	}
	switch rapid.IntRange(0, 9).Draw(t, "keyAtom") {
	case 0, 1, 2, 3:
		op := rapid.SampledFrom([]string{"=", "!=", "<", "<=", ">", ">="}).Draw(t, "keyCmpOp")
		if rapid.IntRange(0, 2).Draw(t, "keyLiteralLeft") == 0 {
			return Bin(op, lit(), Key())
		}
		return Bin(op, Key(), lit())
	case 4, 5:
		if rapid.IntRange(0, 3).Draw(t, "keyPrefixLiteralLeft") == 0 {
			return Bin("^=", lit(), Key())
		}
		return Bin("^=", Key(), lit())
	case 6, 7:
		n := rapid.IntRange(1, 4).Draw(t, "keyInN")
		if len(c.Pairs) > 8 && rapid.IntRange(0, 7).Draw(t, "keyInLong") == 0 {
			// a long list: more point reads than one batch holds
			n = rapid.SampledFrom([]int{33, 40, 65, 70}).Draw(t, "keyInLongN")
		}
		items := make([]*Node, n)
		for i := range items {
			items[i] = lit()
		}
		return In(Key(), items...)
	default:
		a, b := c.textLiteral(t), c.textLiteral(t)
		if a == b {
			b = a + "a"
		}
		if a > b {
			a, b = b, a
		}
		return Between(Key(), Str(a), Str(b))
	}
}

// GenBool draws a Boolean-typed predicate that kvql's checker accepts by
// construction (DESIGN.md §2.2).
func (c *GenCtx) GenBool(t *rapid.T, depth int) *Node {
	if depth > 0 {
		switch rapid.IntRange(0, 9).Draw(t, "boolShape") {
		case 0, 1, 2, 3, 4:
			op := rapid.SampledFrom([]string{"&", "|", "and", "or"}).Draw(t, "logicOp")
			return Bin(op, c.GenBool(t, depth-1), c.GenBool(t, depth-1))
		case 5:
			return Not(c.GenBool(t, depth-1))
		case 6:
			if refs := c.refsOf(TyBool); len(refs) > 0 {
				// a Boolean alias can only stand as an operand of & | and or
				op := rapid.SampledFrom([]string{"&", "|", "and", "or"}).Draw(t, "refLogicOp")
				return Bin(op, Ref(rapid.SampledFrom(refs).Draw(t, "boolRef"), TyBool), c.GenBool(t, depth-1))
			}
		}
	}
	if r := c.biasedRef(t, TyBool); r != nil {
		// a Boolean alias stands as an operand of & | and or, or under !
		switch rapid.IntRange(0, 2).Draw(t, "boolRefShape") {
		case 0:
			return Bin(rapid.SampledFrom([]string{"&", "|", "and", "or"}).Draw(t, "boolRefOp"), r, c.GenBool(t, depth-1))
		case 1:
			return Bin(rapid.SampledFrom([]string{"&", "|", "and", "or"}).Draw(t, "boolRefOp2"), c.GenBool(t, depth-1), r)
		default:
			return Not(r)
		}
	}
	if !c.NoKey && rapid.IntRange(0, 9).Draw(t, "leafIsKeyAtom") < 4-c.RefBias/20 {
		return c.KeyAtom(t)
	}
	if depth > 0 && rapid.IntRange(0, 11).Draw(t, "boolComparison") == 0 {
		// = / != between Boolean values: comparisons, IN, BETWEEN, Boolean
		// calls and the literals true/false are accepted as operands (! is not)
		operand := func(name string) *Node {
			for {
				switch rapid.IntRange(0, 5).Draw(t, name) {
				case 0:
					return Bool(rapid.Bool().Draw(t, name+"Lit"))
				case 1:
					if !c.NoValue {
						return Call("is_int", Value())
					}
				default:
					n := c.GenBool(t, 0)
					if n.K == "not" || n.K == "ref" || (n.K == "bin" && (n.S == "&" || n.S == "|" || n.S == "and" || n.S == "or")) {
						continue
					}
					return n
				}
			}
		}
		l, r := operand("boolCmpLeft"), operand("boolCmpRight")
		if l.K == "bool" && r.K == "bool" {
			r = c.KeyAtom(t)
			if c.NoKey {
				r = Bin("=", Int(1), Int(1))
			}
		}
		return Bin(rapid.SampledFrom([]string{"=", "!="}).Draw(t, "boolCmpOp"), l, r)
	}
	switch rapid.IntRange(0, 7).Draw(t, "boolLeaf") {
	case 0, 1: // text comparison
		op := rapid.SampledFrom([]string{"=", "!=", "<", "<=", ">", ">="}).Draw(t, "cmpOp")
		l, r := c.GenText(t, depth-1), c.GenText(t, depth-1)
		if isBareField(l, "key") && isBareField(r, "key") || isBareField(l, "value") && isBareField(r, "value") {
			r = Str(c.textLiteral(t))
		}
		if !c.NoValue && rapid.Bool().Draw(t, "valueVsLiteral") {
			l, r = Value(), Str(c.textLiteral(t))
			if rapid.Bool().Draw(t, "literalLeft") {
				l, r = r, l
			}
		}
		return Bin(op, l, r)
	case 2: // prefix
		l := c.GenText(t, depth-1)
		rr := Str(c.textLiteral(t))
		if rapid.IntRange(0, 3).Draw(t, "prefixExprRight") == 0 {
			rr = c.GenText(t, depth-1)
		}
		if isBareField(l, "key") && isBareField(rr, "key") || isBareField(l, "value") && isBareField(rr, "value") {
			rr = Str(c.textLiteral(t))
		}
		return Bin("^=", l, rr)
	case 3: // regexp
		if c.Exotic && rapid.IntRange(0, 3).Draw(t, "exoticRegex") == 0 {
			return Bin("~=", c.GenText(t, depth-1), Str(rapid.SampledFrom([]string{"[", "(a", "*", "a{2,1}", "\\", "(?i)A", "\\d+"}).Draw(t, "badRegex")))
		}
		return Bin("~=", c.GenText(t, depth-1), Str(rapid.SampledFrom(regexPool).Draw(t, "regex")))
	case 4: // numeric comparison
		op := rapid.SampledFrom([]string{"=", "!=", "<", "<=", ">", ">="}).Draw(t, "numCmpOp")
		l := c.GenNum(t, depth-1)
		if len(c.Pairs) > 0 && rapid.IntRange(0, 2).Draw(t, "boundaryLiteral") == 0 {
			// on the boundary: compare with the value the left side has on one
			// of the stored pairs (a result that is off by one unit in the
			// last place changes the rows selected)
			p := rapid.SampledFrom(c.Pairs).Draw(t, "boundaryPair")
			if v, err := Eval(l, &Env{K: p.K, V: p.V, Defs: c.Defs}); err == nil {
				if lit := NumberLiteral(v); lit != nil {
					return Bin(op, l, lit)
				}
			}
		}
		return Bin(op, l, c.GenNum(t, depth-1))
	case 5: // in
		if rapid.Bool().Draw(t, "inNumeric") {
			x := c.GenInt(t, depth-1)
			n := rapid.IntRange(1, 4).Draw(t, "inN")
			items := make([]*Node, n)
			for i := range items {
				items[i] = Int(int64(rapid.IntRange(0, 12).Draw(t, "inItem")))
			}
			return In(x, items...)
		}
		x := c.GenText(t, depth-1)
		n := rapid.IntRange(1, 4).Draw(t, "inN")
		items := make([]*Node, n)
		for i := range items {
			items[i] = Str(c.textLiteral(t))
		}
		return In(x, items...)
	case 6: // between
		if rapid.Bool().Draw(t, "betweenNumeric") {
			lo := rapid.IntRange(0, 8).Draw(t, "btLo")
			hi := lo + rapid.IntRange(1, 6).Draw(t, "btSpan")
			if rapid.IntRange(0, 3).Draw(t, "betweenComputedBounds") == 0 {
				// bounds that are computed: the lower one starts with a
				// parenthesised sum ((a + b) * 1 and (a + b) - 0 are a + b)
				a := rapid.IntRange(0, lo).Draw(t, "btLoPart")
				lower := Bin(rapid.SampledFrom([]string{"*", "/"}).Draw(t, "btLoOp"), Bin("+", Int(int64(a)), Int(int64(lo-a))), Int(1))
				upper := Bin("+", Int(int64(hi)), Int(0))
				return Between(c.GenInt(t, depth-1), lower, upper)
			}
			return Between(c.GenInt(t, depth-1), Int(int64(lo)), Int(int64(hi)))
		}
		a, b := c.textLiteral(t), c.textLiteral(t)
		if a == b {
			b = a + "a"
		}
		if a > b {
			a, b = b, a
		}
		return Between(c.GenText(t, depth-1), Str(a), Str(b))
	default: // function predicate / constant comparison
		switch rapid.IntRange(0, 4).Draw(t, "fnPred") {
		case 4:
			// over a number (statically a number, an integer or a float when
			// it is evaluated): whatever the answer, both iteration modes give it
			if c.Exotic {
				return Call(rapid.SampledFrom([]string{"is_int", "is_float"}).Draw(t, "isFnNum"), c.GenNum(t, depth-1))
			}
			fallthrough
		case 0, 1:
			if !c.NoValue {
				return Call(rapid.SampledFrom([]string{"is_int", "is_float"}).Draw(t, "isFn"), Value())
			}
			fallthrough
		case 2:
			return Bin("=", Int(1), Int(1))
		default:
			return Bin("=", Int(2), Int(3))
		}
	}
}

// Evaluable tells whether the reference evaluator defines n on every pair.
func Evaluable(n *Node, pairs []Pair, defs map[string]*Node) bool {
	for _, p := range pairs {
		if _, err := Eval(n, &Env{K: p.K, V: p.V, Defs: defs}); err != nil {
			return false
		}
	}
	return true
}

// ---- exotic constructs (no reference semantics) ---------------------------

func (c *GenCtx) fieldOrLit(t *rapid.T) *Node {
	switch rapid.IntRange(0, 2).Draw(t, "fieldOrLit") {
	case 0:
		if !c.NoKey {
			return Key()
		}
	case 1:
		if !c.NoValue {
			return Value()
		}
	}
	return Str(c.textLiteral(t))
}

func (c *GenCtx) exoticText(t *rapid.T, depth int) *Node {
	switch rapid.IntRange(0, 6).Draw(t, "exoticTextForm") {
	case 0:
		return Call("substr", c.GenText(t, depth-1), Int(int64(rapid.IntRange(0, 4).Draw(t, "subA"))), Int(int64(rapid.IntRange(0, 5).Draw(t, "subB"))))
	case 1:
		return Call("str", c.GenFloat(t, depth-1))
	case 2:
		n := Field(Call("json", c.fieldOrLit(t)), rapid.SampledFrom([]string{"a", "s", "arr", "o", "b", "zz"}).Draw(t, "jsonKey"))
		if rapid.Bool().Draw(t, "jsonDeep") {
			if rapid.Bool().Draw(t, "jsonIdx") {
				return Index(n, int64(rapid.IntRange(0, 2).Draw(t, "jsonIdxN")))
			}
			return Field(n, rapid.SampledFrom([]string{"k", "n"}).Draw(t, "jsonKey2"))
		}
		return n
	case 3:
		return Index(c.GenListText(t), int64(rapid.IntRange(0, 3).Draw(t, "splitIdx")))
	case 4:
		return Call("join", Str(","), c.GenFloat(t, depth-1), c.fieldOrLit(t))
	case 5:
		// (round 10: a call argument that begins with the unary operator)
		if rapid.IntRange(0, 2).Draw(t, "notAsArgument") == 0 {
			return Call("str", Not(Call("is_int", c.fieldOrLit(t))))
		}
		return Call("str", Call("is_int", c.fieldOrLit(t)))
	default:
		return Call("upper", Call("str", c.GenInt(t, depth-1)))
	}
}

func (c *GenCtx) exoticInt(t *rapid.T, depth int) *Node {
	switch rapid.IntRange(0, 5).Draw(t, "exoticIntForm") {
	case 0:
		return Call("int", c.GenText(t, depth-1))
	case 1:
		return Bin("/", c.GenInt(t, depth-1), c.GenInt(t, depth-1))
	case 2:
		return Call("len", c.GenListText(t))
	case 3:
		return Call("int", Field(Call("json", c.fieldOrLit(t)), "a"))
	case 4:
		return Call("int", c.GenFloat(t, depth-1))
	default:
		return Call("strlen", c.GenFloat(t, depth-1))
	}
}

func (c *GenCtx) exoticFloat(t *rapid.T, depth int) *Node {
	switch rapid.IntRange(0, 4).Draw(t, "exoticFloatForm") {
	case 0:
		return Call("float", c.GenText(t, depth-1))
	case 1:
		return Bin("/", c.GenFloat(t, depth-1), c.GenNum(t, depth-1))
	case 2:
		f := rapid.SampledFrom([]string{"l2_distance", "cosine_distance"}).Draw(t, "distFn")
		return Call(f, c.exoticVec(t), c.exoticVec(t))
	case 3:
		return Call("float", Field(Call("json", c.fieldOrLit(t)), "a"))
	default:
		return Bin("*", c.GenFloat(t, depth-1), Float("0.1"))
	}
}

func (c *GenCtx) exoticVec(t *rapid.T) *Node {
	switch rapid.IntRange(0, 3).Draw(t, "vecForm") {
	case 0:
		return c.GenListInt(t)
	case 1:
		return Call("split", c.fieldOrLit(t), Str(","))
	case 2:
		n := rapid.IntRange(1, 3).Draw(t, "fvecN")
		args := make([]*Node, n)
		for i := range args {
			args[i] = c.GenFloat(t, 0)
		}
		return Call(rapid.SampledFrom([]string{"float_list", "flist", "list"}).Draw(t, "fvecFn"), args...)
	default:
		return Call("list", c.fieldOrLit(t), Int(2))
	}
}

func isASCIILower(s string) bool {
	if s == "" {
		return false
	}
	for i := 0; i < len(s); i++ {
		if s[i] < 'a' || s[i] > 'z' {
			return false
		}
	}
	return true
}
