package lib

import (
	"encoding/binary"
	"encoding/json"
	"fmt"
	"hash/fnv"
	"os"
	"sort"
	"strconv"
	"sync"
)

// Collector measures what a check process actually generated: evaluations,
// distinct non-trivial cases (hash set, or a plain counter for enumerators
// that emit every case once by construction), labels and a few samples.
type Collector struct {
	mu          sync.Mutex
	Evals       int64
	EnumNontriv int64 // non-trivial cases of exhaustive enumerators (distinct by construction)
	Hashes      map[uint64]struct{}
	Labels      map[string]int64
	Excluded    map[string]int64 // generator exclusion rule -> number of draws it removed
	Samples     []any
	sampleSeen  int64
	Exhaustive  bool
	Notes       []string
}

var Stats = &Collector{
	Hashes:   map[uint64]struct{}{},
	Labels:   map[string]int64{},
	Excluded: map[string]int64{},
}

func Hash64(s string) uint64 {
	h := fnv.New64a()
	h.Write([]byte(s))
	return h.Sum64()
}

// Case records one generated case. canon is the canonical text of the case
// (used for distinctness); sample is only rendered when kept.
func (c *Collector) Case(nontrivial bool, canon string, labels []string, sample func() any) {
	c.mu.Lock()
	defer c.mu.Unlock()
	c.Evals++
	for _, l := range labels {
		c.Labels[l]++
	}
	if nontrivial {
		c.Labels["nontrivial"]++
		h := Hash64(canon)
		if _, seen := c.Hashes[h]; !seen {
			c.Hashes[h] = struct{}{}
			c.keepSample(sample)
		}
	}
}

// EnumCase records one case of an exhaustive enumerator (each case is emitted
// exactly once, so no hashing is needed).
func (c *Collector) EnumCase(nontrivial bool, labels []string, sample func() any) {
	c.mu.Lock()
	defer c.mu.Unlock()
	c.Evals++
	for _, l := range labels {
		c.Labels[l]++
	}
	if nontrivial {
		c.Labels["nontrivial"]++
		c.EnumNontriv++
		c.keepSample(sample)
	}
}

func (c *Collector) keepSample(sample func() any) {
	if sample == nil {
		return
	}
	c.sampleSeen++
	// keep the 1st, 2nd, 4th, 8th … non-trivial case: spreads samples over the run
	n := c.sampleSeen
	if n&(n-1) == 0 && len(c.Samples) < 24 {
		c.Samples = append(c.Samples, sample())
	}
}

func (c *Collector) Label(l string) {
	c.mu.Lock()
	c.Labels[l]++
	c.mu.Unlock()
}

func (c *Collector) Exclude(rule string) {
	c.mu.Lock()
	c.Excluded[rule]++
	c.mu.Unlock()
}

func (c *Collector) Note(format string, args ...any) {
	c.mu.Lock()
	c.Notes = append(c.Notes, fmt.Sprintf(format, args...))
	c.mu.Unlock()
}

type statsFile struct {
	Evals       int64            `json:"evals"`
	EnumNontriv int64            `json:"enum_nontrivial"`
	NHashes     int              `json:"n_hashes"`
	Labels      map[string]int64 `json:"labels"`
	Excluded    map[string]int64 `json:"excluded"`
	Samples     []any            `json:"samples"`
	Exhaustive  bool             `json:"exhaustive"`
	Notes       []string         `json:"notes"`
}

// Flush writes the statistics of this process (called from TestMain).
func (c *Collector) Flush() {
	path := os.Getenv("VERIF_STATS_OUT")
	if path == "" {
		return
	}
	c.mu.Lock()
	defer c.mu.Unlock()
	sf := statsFile{
		Evals: c.Evals, EnumNontriv: c.EnumNontriv, NHashes: len(c.Hashes),
		Labels: c.Labels, Excluded: c.Excluded, Samples: c.Samples,
		Exhaustive: c.Exhaustive, Notes: c.Notes,
	}
	b, _ := json.Marshal(sf)
	os.WriteFile(path, b, 0o644)
	hs := make([]uint64, 0, len(c.Hashes))
	for h := range c.Hashes {
		hs = append(hs, h)
	}
	sort.Slice(hs, func(i, j int) bool { return hs[i] < hs[j] })
	buf := make([]byte, 8*len(hs))
	for i, h := range hs {
		binary.LittleEndian.PutUint64(buf[8*i:], h)
	}
	os.WriteFile(path+".hashes", buf, 0o644)
}

// ---------------------------------------------------------------------------
// Tiers, shards, seeds

func Tier() string {
	if os.Getenv("VERIF_TIER") == "thorough" {
		return "thorough"
	}
	return "quick"
}

func Thorough() bool { return Tier() == "thorough" }

// Pick returns q in the quick tier and t in the thorough tier.
func Pick(q, t int) int {
	if Thorough() {
		return t
	}
	return q
}

func envInt(name string, def int) int {
	if s := os.Getenv(name); s != "" {
		if v, err := strconv.Atoi(s); err == nil {
			return v
		}
	}
	return def
}

// Shard returns (index, count) of this process among the shards of its leg.
func Shard() (int, int) {
	n := envInt("VERIF_NSHARDS", 1)
	if n < 1 {
		n = 1
	}
	i := envInt("VERIF_SHARD", 0)
	return i % n, n
}

// Mine tells whether enumeration index idx belongs to this shard.
func Mine(idx int) bool {
	i, n := Shard()
	return idx%n == i
}

// ---------------------------------------------------------------------------
// Failure / replay plumbing

type ReplayFile struct {
	Property string          `json:"property"`
	Kind     string          `json:"kind"`
	Message  string          `json:"message"`
	Case     json.RawMessage `json:"case"`
}

type Fataler interface {
	Fatalf(format string, args ...any)
	Helper()
}

// WriteFail stores the failing case (overwritten on every failing execution,
// so after shrinking it holds the minimal one).
func WriteFail(prop, kind, msg string, c any) {
	path := os.Getenv("VERIF_FAIL_OUT")
	if path == "" {
		return
	}
	raw, err := EncodeCase(c)
	if err != nil {
		raw = []byte(strconv.Quote(fmt.Sprintf("unmarshalable case: %v", err)))
	}
	rf := ReplayFile{Property: prop, Kind: kind, Message: msg, Case: raw}
	b, _ := json.MarshalIndent(rf, "", " ")
	os.WriteFile(path, b, 0o644)
}

// Violation records the replay and fails the test.
func Violation(t Fataler, prop, kind, msg string, c any) {
	t.Helper()
	WriteFail(prop, kind, msg, c)
	t.Fatalf("VIOLATION %s: %s", prop, msg)
}

var journalFile *os.File

// Journal notes the case about to run, so that a process death (Go fatal
// errors bypass recover) can be attributed by the driver.
func Journal(prop, kind string, c any) {
	path := os.Getenv("VERIF_JOURNAL")
	if path == "" {
		return
	}
	if journalFile == nil {
		f, err := os.OpenFile(path, os.O_CREATE|os.O_RDWR|os.O_TRUNC, 0o644)
		if err != nil {
			return
		}
		journalFile = f
	}
	raw, err := EncodeCase(c)
	if err != nil {
		return
	}
	rf := ReplayFile{Property: prop, Kind: kind, Message: "process died while running this case", Case: raw}
	b, _ := json.Marshal(rf)
	// length-prefixed so a stale longer tail is ignored
	hdr := []byte(fmt.Sprintf("%010d\n", len(b)))
	journalFile.WriteAt(append(hdr, b...), 0)
}
