package lib

import (
	"fmt"
	"sort"
	"strings"

	"pgregory.net/rapid"
)

// Single-edit corruptions of statement text (C06, C17) and hostile stores.

var vocab = []string{
	"select", "where", "key", "value", "limit", "order", "by", "asc", "desc", "group", "as", "in", "between", "and", "or",
	"put", "remove", "delete", "true", "false", "*", "+", "-", "/", "=", "!=", "^=", "~=", "<", "<=", ">", ">=", "!", "&", "|",
	"(", ")", "[", "]", ",", ";", "'", "\"", "`", "''", "'a'", "1", "0", "1.5", "x", "count(1)", "sum(", "int(value)", "json(value)",
	"upper", "substr(key, 2, 1)", "list()", "join()", "9223372036854775807", "1e308", "-", "limit 1,", "order by", "group by",
}

// tokenSpans splits q into token spans using the reference tokeniser
// (positions only; works on any text).
func tokenSpans(q string) [][2]int {
	toks, _ := RefLex(q)
	spans := make([][2]int, 0, len(toks))
	for _, t := range toks {
		end := t.Pos + len(t.Data)
		if t.Quoted {
			end = t.Pos + len(t.Data) + 1
			if t.Closed {
				end++
			}
		}
		if end > len(q) {
			end = len(q)
		}
		spans = append(spans, [2]int{t.Pos, end})
	}
	return spans
}

// Corrupt applies one edit to q. other is a second statement for splicing.
func Corrupt(t *rapid.T, q, other string) (string, string) {
	spans := tokenSpans(q)
	if len(spans) == 0 {
		return q + rapid.SampledFrom(vocab).Draw(t, "appendTok"), "append"
	}
	i := rapid.IntRange(0, len(spans)-1).Draw(t, "tokIdx")
	s, e := spans[i][0], spans[i][1]
	switch rapid.IntRange(0, 10).Draw(t, "edit") {
	case 0:
		return q[:s] + q[e:], "delete-token"
	case 1:
		return q[:e] + " " + q[s:e] + q[e:], "duplicate-token"
	case 2:
		if i+1 < len(spans) {
			s2, e2 := spans[i+1][0], spans[i+1][1]
			if s2 < e || e2 < s2 {
				return q[:s], "truncate"
			}
			return q[:s] + q[s2:e2] + q[e:s2] + q[s:e] + q[e2:], "swap-tokens"
		}
		return q[:s], "truncate"
	case 3:
		return q[:s] + rapid.SampledFrom(vocab).Draw(t, "replTok") + q[e:], "replace-token"
	case 4:
		return q[:s] + rapid.SampledFrom(vocab).Draw(t, "insTok") + " " + q[s:], "insert-token"
	case 5:
		b := []byte(q)
		p := rapid.IntRange(0, len(b)-1).Draw(t, "bytePos")
		b[p] = rapid.Byte().Draw(t, "byteVal")
		return string(b), "flip-byte"
	case 6:
		return q[:rapid.IntRange(0, len(q)).Draw(t, "cut")], "truncate"
	case 7:
		c := rapid.SampledFrom([]string{"(", ")", "[", "]", "'", "\"", "`"}).Draw(t, "bracket")
		return q[:s] + c + q[s:], "unbalance"
	case 8:
		cut := rapid.IntRange(0, len(other)).Draw(t, "spliceAt")
		return q[:e] + " " + other[cut:], "splice"
	case 9:
		return strings.Repeat(" ", rapid.IntRange(0, 40).Draw(t, "lead")) + q + strings.Repeat(" ", rapid.IntRange(0, 40).Draw(t, "trail")), "pad"
	default:
		return q[:s] + strings.ToUpper(q[s:e]) + q[e:], "upper-token"
	}
}

// ---- hostile stores -----------------------------------------------------------

var hostileValues = []string{
	"", " ", "abc", "12", "-7", "007", "1.5", "1e308", "-1e308", "1e-320", "nan", "NaN", "inf", "-Inf", "Infinity", "+5", "0x10", "1_000",
	"9223372036854775807", "-9223372036854775808", "9223372036854775808", "99999999999999999999", "1,2,3", ",,", "a,b", ",",
	"{}", "[]", "null", "true", `"str"`, "[1,2", `{"a": 1}`, `{"a": "x"}`, `{"a": [1, "x", null]}`, `{"a": {"b": {"c": 1}}}`, `{"a": null}`,
	`{"a": 1.5, "s": 2, "arr": "notarr", "o": [1]}`, `{"a": true, "s": {}, "arr": [[1]], "o": {"k": 1}}`, `{"arr": [1,2,3], "list": ["a"]}`,
	"\xff\xfe", "\x00", "a\x00b", "\xc3\x28", "ü", "日本", "'", "\"", "`", "a'b", "(", ")", "%s%d", "\n", "\t", strings.Repeat("x", 300),
	// round 12: long JSON documents that are damaged far behind their start
	// (an offset into such a value is no offset into the query)
	`{"a": 1, "pad": "` + strings.Repeat("p", 200) + `", "b": ]}`, `{"a": "` + strings.Repeat("q", 150),
}

var hostileKeys = []string{
	"a", "ab", "abc", "b", "ba", "c", "k1", "k2", "k10", "", " ", "1", "12", "1.5", "\xff", "\x00", "a\x00", "'", "key", "value", "ü",
	"K", "a b", "a,b", strings.Repeat("k", 100),
}

// GenHostileStore draws a store whose values and keys are chosen to break
// conversions and type assumptions.
func GenHostileStore(t *rapid.T) []Pair {
	n := rapid.SampledFrom([]int{0, 1, 2, 3, 5, 8, 33, 70}).Draw(t, "hostileN")
	m := map[string]string{}
	for i := 0; i < n; i++ {
		var k string
		if i < len(hostileKeys) && rapid.Bool().Draw(t, "poolKey") {
			k = rapid.SampledFrom(hostileKeys).Draw(t, "hkey")
		} else {
			k = genKey(t, true, n > 20)
		}
		if k == "" {
			k = "e"
		}
		m[k] = rapid.SampledFrom(hostileValues).Draw(t, "hval")
	}
	ret := make([]Pair, 0, len(m))
	for k, v := range m {
		ret = append(ret, Pair{k, v})
	}
	sort.Slice(ret, func(i, j int) bool { return ret[i].K < ret[j].K })
	return ret
}

// FixedHostileStore returns store number sel of a small deterministic family
// (native fuzzing selects the store with one byte).
func FixedHostileStore(sel int) []Pair {
	switch sel % 6 {
	case 0:
		return nil
	case 1:
		return []Pair{{"a", "1"}, {"ab", "2"}, {"abc", "3"}, {"b", "4"}, {"ba", "5"}, {"c", "6"}}
	case 2:
		var ps []Pair
		for i, v := range hostileValues {
			ps = append(ps, Pair{fmt.Sprintf("k%02d", i), v})
		}
		return ps
	case 3:
		return []Pair{{"a", `{"a": 1, "s": "x", "arr": [1, 2]}`}, {"b", `{"a": "z", "s": 2, "arr": "no"}`}, {"c", `[1]`}, {"d", `{"a": {"b": 1}}`}}
	case 4:
		return []Pair{{"\xff", "\xff"}, {"\x00", ""}, {"k", "9223372036854775807"}, {"l", "1e308"}, {"m", "nan"}, {"n", "-0"}}
	default:
		var ps []Pair
		for i := 0; i < 70; i++ {
			ps = append(ps, Pair{fmt.Sprintf("k%d", i), fmt.Sprintf("%d,%d", i, i%7)})
		}
		return ps
	}
}
