package lib

import (
	"fmt"
	"strconv"
	"strings"
)

// Ty is the dynamic type the reference evaluator assigns to a node.
type Ty int

const (
	TyNone Ty = iota
	TyText
	TyInt
	TyFloat
	TyBool
	TyListText
	TyListInt
	TyListFloat
	TyJSON
	TyAny // member of a JSON document (dynamically typed)
)

func (t Ty) String() string {
	switch t {
	case TyText:
		return "text"
	case TyInt:
		return "int"
	case TyFloat:
		return "float"
	case TyBool:
		return "bool"
	case TyListText:
		return "list<text>"
	case TyListInt:
		return "list<int>"
	case TyListFloat:
		return "list<float>"
	case TyJSON:
		return "json"
	case TyAny:
		return "any"
	}
	return "none"
}

func (t Ty) IsNum() bool  { return t == TyInt || t == TyFloat }
func (t Ty) IsList() bool { return t == TyListText || t == TyListInt || t == TyListFloat }

// Node is the harness' own expression tree. It never touches kvql's AST: it
// is rendered to query text for the engine and evaluated by refeval.go for
// the oracle. A single struct type keeps it trivially JSON-serialisable for
// replay files.
//
// Kinds (K):
//
//	key value            the pair's key / value
//	str                  text literal S
//	int                  non-negative integer literal I
//	float                float literal, text in S, value in F
//	bool                 literal true/false (B in I != 0)
//	bin                  A[0] S A[1], S one of = != < <= > >= ^= ~= + - * / & | and or
//	not                  !A[0]
//	call                 S(A...)
//	in                   A[0] in (A[1:]...)
//	inlist               A[0] in A[1]   (A[1] list-typed call or ref)
//	between              A[0] between A[1] and A[2]
//	index                A[0][I]
//	field                A[0][S]
//	ref                  use of the alias S (definition found in the statement)
//	paren                (A[0])  — only produced by the C15 renderer tests
type Node struct {
	K string  `json:"k"`
	S string  `json:"s,omitempty"`
	I int64   `json:"i,omitempty"`
	F float64 `json:"f,omitempty"`
	A []*Node `json:"a,omitempty"`
	T Ty      `json:"t,omitempty"`
}

func Key() *Node         { return &Node{K: "key", T: TyText} }
func Value() *Node       { return &Node{K: "value", T: TyText} }
func Str(s string) *Node { return &Node{K: "str", S: s, T: TyText} }
func Int(i int64) *Node  { return &Node{K: "int", I: i, T: TyInt} }

// SpelledInt is a non-negative integer literal written with leading zeros
// (007): the same number, another spelling.
func SpelledInt(i int64, zeros int) *Node {
	return &Node{K: "int", I: i, S: strings.Repeat("0", zeros) + strconv.FormatInt(i, 10), T: TyInt}
}
func Bool(b bool) *Node {
	n := &Node{K: "bool", T: TyBool}
	if b {
		n.I = 1
	}
	return n
}
func Not(x *Node) *Node           { return &Node{K: "not", A: []*Node{x}, T: TyBool} }
func Ref(name string, t Ty) *Node { return &Node{K: "ref", S: name, T: t} }

// Float builds a float literal from its text (exactly representable values
// only are used by the generators).
func Float(text string) *Node {
	f, err := strconv.ParseFloat(text, 64)
	if err != nil {
		panic("bad float literal " + text)
	}
	return &Node{K: "float", S: text, F: f, T: TyFloat}
}

func Bin(op string, l, r *Node) *Node {
	n := &Node{K: "bin", S: op, A: []*Node{l, r}}
	switch op {
	case "=", "!=", "<", "<=", ">", ">=", "^=", "~=", "&", "|", "and", "or":
		n.T = TyBool
	case "+":
		if l.T == TyText {
			n.T = TyText
		} else if l.T == TyInt && r.T == TyInt {
			n.T = TyInt
		} else {
			n.T = TyFloat
		}
	case "-", "*", "/":
		if l.T == TyInt && r.T == TyInt {
			n.T = TyInt
		} else {
			n.T = TyFloat
		}
	}
	return n
}

func In(x *Node, items ...*Node) *Node {
	return &Node{K: "in", A: append([]*Node{x}, items...), T: TyBool}
}

func InList(x, list *Node) *Node {
	return &Node{K: "inlist", A: []*Node{x, list}, T: TyBool}
}

func Between(x, lo, hi *Node) *Node {
	return &Node{K: "between", A: []*Node{x, lo, hi}, T: TyBool}
}

func Index(x *Node, i int64) *Node {
	t := TyAny
	switch x.T {
	case TyListText:
		t = TyText
	case TyListInt:
		t = TyInt
	case TyListFloat:
		t = TyFloat
	}
	return &Node{K: "index", A: []*Node{x}, I: i, T: t}
}

func Field(x *Node, name string) *Node {
	return &Node{K: "field", A: []*Node{x}, S: name, T: TyAny}
}

// Call builds a function call; the result type is derived from the function
// table below (documented signatures).
func Call(name string, args ...*Node) *Node {
	n := &Node{K: "call", S: name, A: args}
	switch name {
	case "upper", "lower", "str", "substr", "join":
		n.T = TyText
	case "int", "strlen", "len":
		n.T = TyInt
	case "float", "l2_distance", "cosine_distance":
		n.T = TyFloat
	case "is_int", "is_float":
		n.T = TyBool
	case "split":
		n.T = TyListText
	case "int_list", "ilist":
		n.T = TyListInt
	case "float_list", "flist":
		n.T = TyListFloat
	case "list":
		n.T = TyListInt
		if len(args) > 0 {
			switch args[0].T {
			case TyFloat:
				n.T = TyListFloat
			case TyText:
				n.T = TyListText
			}
		}
	case "json":
		n.T = TyJSON
	// aggregates
	case "count":
		n.T = TyInt
	case "sum", "min", "max":
		n.T = TyInt
		if len(args) > 0 && args[0].T == TyFloat {
			n.T = TyFloat
		}
	case "avg", "quantile":
		n.T = TyFloat
	case "group_concat", "json_arrayagg":
		n.T = TyText
	}
	return n
}

var AggrNames = map[string]bool{
	"count": true, "sum": true, "avg": true, "min": true, "max": true,
	"quantile": true, "json_arrayagg": true, "group_concat": true,
}

var ScalarArity = map[string]int{ // -n = at least n
	"lower": 1, "upper": 1, "int": 1, "float": 1, "str": 1, "is_int": 1, "is_float": 1,
	"substr": 3, "json": 1, "split": 2, "list": -1, "float_list": -1, "int_list": -1,
	"flist": -1, "ilist": -1, "len": 1, "join": -2, "strlen": 1,
	"cosine_distance": 2, "l2_distance": 2,
}

// Clone deep-copies a tree.
func (n *Node) Clone() *Node {
	if n == nil {
		return nil
	}
	c := *n
	c.A = make([]*Node, len(n.A))
	for i, a := range n.A {
		c.A[i] = a.Clone()
	}
	return &c
}

// Walk visits every node (pre-order).
func (n *Node) Walk(f func(*Node)) {
	if n == nil {
		return
	}
	f(n)
	for _, a := range n.A {
		a.Walk(f)
	}
}

func (n *Node) Count(pred func(*Node) bool) int {
	c := 0
	n.Walk(func(x *Node) {
		if pred(x) {
			c++
		}
	})
	return c
}

func (n *Node) Has(pred func(*Node) bool) bool { return n.Count(pred) > 0 }

func (n *Node) HasAggr() bool {
	return n.Has(func(x *Node) bool { return x.K == "call" && AggrNames[x.S] })
}

// ---------------------------------------------------------------------------
// Engine-side static type of a node (the five kinds kvql's checker knows);
// generators use it to stay inside what the checker accepts.

type EngTy int

const (
	EUnknown EngTy = iota
	EBool
	EStr
	ENum
	EList
	EJSON
)

func (n *Node) Eng(defs map[string]*Node) EngTy {
	switch n.K {
	case "key", "value", "str":
		return EStr
	case "int", "float":
		return ENum
	case "bool", "not", "in", "inlist", "between":
		return EBool
	case "index", "field":
		return EStr // kvql types every [..] access as string
	case "paren":
		return n.A[0].Eng(defs)
	case "ref":
		if d, ok := defs[n.S]; ok {
			return d.Eng(defs)
		}
		return EUnknown
	case "bin":
		switch n.S {
		case "+":
			if n.A[0].Eng(defs) == EStr {
				return EStr
			}
			return ENum
		case "-", "*", "/":
			return ENum
		}
		return EBool
	case "call":
		switch n.S {
		case "upper", "lower", "str", "substr", "join", "json_arrayagg", "group_concat":
			return EStr
		case "int", "float", "strlen", "len", "l2_distance", "cosine_distance",
			"count", "sum", "avg", "min", "max", "quantile":
			return ENum
		case "is_int", "is_float":
			return EBool
		case "split", "list", "int_list", "ilist", "float_list", "flist":
			return EList
		case "json":
			return EJSON
		}
	}
	return EUnknown
}

// ---------------------------------------------------------------------------
// Rendering

// Quote renders a text literal; it picks a quote character that does not
// occur in the text (the language has no escape syntax). ok=false when both
// quote kinds occur.
func Quote(s string) (string, bool) {
	if !strings.Contains(s, "'") {
		return "'" + s + "'", true
	}
	if !strings.Contains(s, "\"") {
		return "\"" + s + "\"", true
	}
	return "", false
}

func mustQuote(s string) string {
	q, ok := Quote(s)
	if !ok {
		panic("unquotable literal " + strconv.Quote(s))
	}
	return q
}

// Render gives the canonical text: single spaces, every binary operator fully
// parenthesised.
func (n *Node) Render() string {
	var sb strings.Builder
	n.render(&sb, true)
	return sb.String()
}

// RenderTop renders without the outermost parentheses (for WHERE / select
// fields: `where a = b`), otherwise canonical.
func (n *Node) RenderTop() string {
	var sb strings.Builder
	n.render(&sb, false)
	return sb.String()
}

func (n *Node) render(sb *strings.Builder, paren bool) {
	switch n.K {
	case "key":
		sb.WriteString("key")
	case "value":
		sb.WriteString("value")
	case "str":
		sb.WriteString(mustQuote(n.S))
	case "int":
		if n.S != "" {
			sb.WriteString(n.S) // as spelled (007)
		} else {
			sb.WriteString(strconv.FormatInt(n.I, 10))
		}
	case "float":
		sb.WriteString(n.S)
	case "bool":
		if n.I != 0 {
			sb.WriteString("true")
		} else {
			sb.WriteString("false")
		}
	case "ref":
		sb.WriteString(SpellName(n.S))
	case "paren":
		sb.WriteString("(")
		n.A[0].render(sb, false)
		sb.WriteString(")")
	case "not":
		sb.WriteString("!")
		if n.A[0].K == "call" || n.A[0].K == "not" {
			n.A[0].render(sb, true)
		} else {
			sb.WriteString("(")
			n.A[0].render(sb, false)
			sb.WriteString(")")
		}
	case "bin":
		if paren {
			sb.WriteString("(")
		}
		n.A[0].render(sb, true)
		sb.WriteString(" " + n.S + " ")
		n.A[1].render(sb, true)
		if paren {
			sb.WriteString(")")
		}
	case "in":
		if paren {
			sb.WriteString("(")
		}
		n.A[0].render(sb, true)
		sb.WriteString(" in (")
		for i, a := range n.A[1:] {
			if i > 0 {
				sb.WriteString(", ")
			}
			a.render(sb, true)
		}
		sb.WriteString(")")
		if paren {
			sb.WriteString(")")
		}
	case "inlist":
		if paren {
			sb.WriteString("(")
		}
		n.A[0].render(sb, true)
		sb.WriteString(" in ")
		n.A[1].render(sb, true)
		if paren {
			sb.WriteString(")")
		}
	case "between":
		if paren {
			sb.WriteString("(")
		}
		n.A[0].render(sb, true)
		sb.WriteString(" between ")
		n.A[1].render(sb, true)
		sb.WriteString(" and ")
		n.A[2].render(sb, true)
		if paren {
			sb.WriteString(")")
		}
	case "call":
		sb.WriteString(n.S)
		sb.WriteString("(")
		for i, a := range n.A {
			if i > 0 {
				sb.WriteString(", ")
			}
			a.render(sb, false)
		}
		sb.WriteString(")")
	case "index":
		n.A[0].render(sb, true)
		sb.WriteString("[" + strconv.FormatInt(n.I, 10) + "]")
	case "field":
		n.A[0].render(sb, true)
		sb.WriteString("[" + mustQuote(n.S) + "]")
	default:
		panic("render: unknown node kind " + n.K)
	}
}

// ---------------------------------------------------------------------------
// Statements

type SelField struct {
	E     *Node  `json:"e"`
	Alias string `json:"alias,omitempty"`
}

type OrderKey struct {
	Name string `json:"name"` // alias, or "key"/"value"
	Dir  string `json:"dir"`  // "", "asc", "desc"
}

type Limit struct {
	Start int  `json:"start"`
	Count int  `json:"count"`
	Two   bool `json:"two"` // rendered as `limit s, n`
}

type Stmt struct {
	Kind    string     `json:"kind"` // select delete put remove
	Star    bool       `json:"star,omitempty"`
	Fields  []SelField `json:"fields,omitempty"`
	Where   *Node      `json:"where,omitempty"`
	Order   []OrderKey `json:"order,omitempty"`
	Group   []string   `json:"group,omitempty"`
	Lim     *Limit     `json:"lim,omitempty"`
	Pairs   [][2]*Node `json:"pairs,omitempty"` // put
	Keys    []*Node    `json:"keys,omitempty"`  // remove
	NoSelKW bool       `json:"nosel,omitempty"` // bare `where P`
	Semis   int        `json:"semis,omitempty"` // trailing semicolons
}

// Defs returns alias -> defining expression.
func (s *Stmt) Defs() map[string]*Node {
	m := map[string]*Node{}
	for _, f := range s.Fields {
		if _, dup := m[f.Alias]; f.Alias != "" && !dup {
			m[f.Alias] = f.E // a repeated name refers to the first field
		}
	}
	return m
}

func (s *Stmt) Clone() *Stmt {
	c := *s
	c.Fields = make([]SelField, len(s.Fields))
	for i, f := range s.Fields {
		c.Fields[i] = SelField{E: f.E.Clone(), Alias: f.Alias}
	}
	c.Where = s.Where.Clone()
	c.Order = append([]OrderKey(nil), s.Order...)
	c.Group = append([]string(nil), s.Group...)
	if s.Lim != nil {
		l := *s.Lim
		c.Lim = &l
	}
	c.Pairs = make([][2]*Node, len(s.Pairs))
	for i, p := range s.Pairs {
		c.Pairs[i] = [2]*Node{p[0].Clone(), p[1].Clone()}
	}
	c.Keys = make([]*Node, len(s.Keys))
	for i, k := range s.Keys {
		c.Keys[i] = k.Clone()
	}
	return &c
}

func (l *Limit) Render() string {
	if l.Two {
		return fmt.Sprintf(" limit %d, %d", l.Start, l.Count)
	}
	return fmt.Sprintf(" limit %d", l.Count)
}

func (s *Stmt) Render() string {
	var sb strings.Builder
	switch s.Kind {
	case "select":
		if !s.NoSelKW {
			sb.WriteString("select ")
			if s.Star {
				sb.WriteString("*")
			} else {
				for i, f := range s.Fields {
					if i > 0 {
						sb.WriteString(", ")
					}
					sb.WriteString(f.E.RenderTop())
					if f.Alias != "" {
						sb.WriteString(" as " + SpellName(f.Alias))
					}
				}
			}
			sb.WriteString(" ")
		}
		sb.WriteString("where ")
		sb.WriteString(s.Where.RenderTop())
		if len(s.Group) > 0 {
			sb.WriteString(" group by ")
			for i, g := range s.Group {
				if i > 0 {
					sb.WriteString(", ")
				}
				sb.WriteString(SpellName(g))
			}
		}
		if len(s.Order) > 0 {
			sb.WriteString(" order by ")
			for i, o := range s.Order {
				if i > 0 {
					sb.WriteString(", ")
				}
				sb.WriteString(SpellName(o.Name))
				if o.Dir != "" {
					sb.WriteString(" " + o.Dir)
				}
			}
		}
		if s.Lim != nil {
			sb.WriteString(s.Lim.Render())
		}
	case "delete":
		sb.WriteString("delete where ")
		sb.WriteString(s.Where.RenderTop())
		if s.Lim != nil {
			sb.WriteString(s.Lim.Render())
		}
	case "put":
		sb.WriteString("put ")
		for i, p := range s.Pairs {
			if i > 0 {
				sb.WriteString(", ")
			}
			sb.WriteString("(" + p[0].RenderTop() + ", " + p[1].RenderTop() + ")")
		}
	case "remove":
		sb.WriteString("remove ")
		for i, k := range s.Keys {
			if i > 0 {
				sb.WriteString(", ")
			}
			sb.WriteString(k.RenderTop())
		}
	default:
		panic("render: unknown statement kind " + s.Kind)
	}
	for i := 0; i < s.Semis; i++ {
		if i > 0 {
			sb.WriteString(" ")
		}
		sb.WriteString(";")
	}
	return sb.String()
}

// SpellName writes a field name as the query must spell it: a name that is
// not a plain lower-case word (letters, digits, underscores) needs backquotes.
func SpellName(name string) string {
	for i := 0; i < len(name); i++ {
		c := name[i]
		// (a capital letter too: a bare word is folded to lower case)
		if !(c == '_' || (c >= 'a' && c <= 'z') || (i > 0 && c >= '0' && c <= '9')) {
			return "`" + name + "`"
		}
	}
	return name
}

// ExpandRefs replaces every alias use by a (cloned) copy of its definition,
// recursively (definitions are acyclic by construction).
func ExpandRefs(n *Node, defs map[string]*Node) *Node {
	if n == nil {
		return nil
	}
	if n.K == "ref" {
		d, ok := defs[n.S]
		if !ok {
			panic("unknown alias " + n.S)
		}
		return ExpandRefs(d, defs)
	}
	c := *n
	c.A = make([]*Node, len(n.A))
	for i, a := range n.A {
		c.A[i] = ExpandRefs(a, defs)
	}
	return &c
}
