package lib

import (
	"encoding/json"
	"fmt"
	"math"
	"math/big"
	"regexp"
	"sort"
	"strconv"
	"strings"
	"unicode/utf8"
)

// Reference execution of a SELECT (without ORDER BY / LIMIT, which the checks
// treat metamorphically): filter, projection and hash aggregation written
// from the documentation.

// FieldNameOf gives the name a select field is announced under.
func (s *Stmt) GroupExpr(name string) (*Node, error) {
	switch strings.ToLower(name) {
	case "key":
		return Key(), nil
	case "value":
		return Value(), nil
	}
	for _, f := range s.Fields {
		if f.Alias == name {
			return f.E, nil
		}
	}
	return nil, fmt.Errorf("harness bug: group/order name %q is not a select field", name)
}

// IsAggregate tells whether the statement is an aggregate SELECT.
func (s *Stmt) IsAggregate() bool {
	if len(s.Group) > 0 {
		return true
	}
	for _, f := range s.Fields {
		if f.E.HasAggr() {
			return true
		}
	}
	return false
}

// RefRow is a reference result row together with the pair(s) it came from.
type RefRow struct {
	Cols  []any
	Pairs []Pair // the row's pair (projection) or the group's pairs in scan order
}

// RefSelect computes the rows of a SELECT ignoring its ORDER BY and LIMIT
// clauses. err wraps ErrDomain when some sub-expression is outside the
// documented domain on some pair.
func RefSelect(s *Stmt, pairs []Pair) ([]RefRow, error) {
	defs := s.Defs()
	sorted := NewStore(pairs).Pairs()
	var pass []Pair
	for _, p := range sorted {
		ok, err := EvalBool(s.Where, p.K, p.V, defs)
		if err != nil {
			return nil, err
		}
		if ok {
			pass = append(pass, p)
		}
	}
	if !s.IsAggregate() {
		var rows []RefRow
		for _, p := range pass {
			if s.Star {
				rows = append(rows, RefRow{Cols: []any{p.K, p.V}, Pairs: []Pair{p}})
				continue
			}
			cols := make([]any, len(s.Fields))
			for i, f := range s.Fields {
				v, err := Eval(f.E, &Env{K: p.K, V: p.V, Defs: defs})
				if err != nil {
					return nil, err
				}
				cols[i] = v
			}
			rows = append(rows, RefRow{Cols: cols, Pairs: []Pair{p}})
		}
		return rows, nil
	}

	// hash aggregation: partition by the tuple of GROUP BY values
	var gexprs []*Node
	for _, g := range s.Group {
		e, err := s.GroupExpr(g)
		if err != nil {
			return nil, err
		}
		gexprs = append(gexprs, e)
	}
	type group struct {
		pairs []Pair
	}
	var order []string
	groups := map[string]*group{}
	for _, p := range pass {
		tuple := make([]any, len(gexprs))
		for i, e := range gexprs {
			v, err := Eval(e, &Env{K: p.K, V: p.V, Defs: defs})
			if err != nil {
				return nil, err
			}
			tuple[i] = v
		}
		gk := ShowRow(tuple)
		g, ok := groups[gk]
		if !ok {
			g = &group{}
			groups[gk] = g
			order = append(order, gk)
		}
		g.pairs = append(g.pairs, p)
	}
	var rows []RefRow
	for _, gk := range order {
		g := groups[gk]
		first := g.pairs[0]
		cols := make([]any, len(s.Fields))
		for i, f := range s.Fields {
			// names of aggregate fields are abbreviations too: expand first
			fe := ExpandRefs(f.E, defs)
			if !fe.HasAggr() {
				v, err := Eval(fe, &Env{K: first.K, V: first.V, Defs: defs})
				if err != nil {
					return nil, err
				}
				cols[i] = v
				continue
			}
			aggr := map[*Node]any{}
			var aerr error
			fe.Walk(func(n *Node) {
				if aerr != nil || n.K != "call" || !AggrNames[n.S] {
					return
				}
				v, err := refAggregate(n, g.pairs, defs)
				if err != nil {
					aerr = err
					return
				}
				aggr[n] = v
			})
			if aerr != nil {
				return nil, aerr
			}
			v, err := Eval(fe, &Env{K: first.K, V: first.V, Defs: defs, Aggr: aggr})
			if err != nil {
				return nil, err
			}
			cols[i] = v
		}
		rows = append(rows, RefRow{Cols: cols, Pairs: g.pairs})
	}
	return rows, nil
}

// JSONArrayText marks a value that is the text of a JSON array (compared
// structurally).
type JSONArrayText struct{ Items []any }

func refAggregate(n *Node, pairs []Pair, defs map[string]*Node) (any, error) {
	vals := make([]any, len(pairs))
	if n.S != "count" {
		for i, p := range pairs {
			v, err := Eval(n.A[0], &Env{K: p.K, V: p.V, Defs: defs})
			if err != nil {
				return nil, err
			}
			vals[i] = v
		}
	}
	switch n.S {
	case "count":
		return int64(len(pairs)), nil
	case "sum", "avg", "min", "max":
		allInt, allFloat := true, true
		for i, v := range vals {
			if s, ok := v.(string); ok {
				// numeric text is read as the number it spells (clear-cut
				// decimal spellings only)
				if x, ok := ReadInt(s); ok {
					v = x
				} else if x, ok := ReadFloat(s); ok {
					v = x
				} else {
					return nil, domain("%s over text %q", n.S, s)
				}
				vals[i] = v
			}
			switch v.(type) {
			case int64:
				allFloat = false
			case float64:
				allInt = false
			default:
				return nil, domain("%s over %T", n.S, v)
			}
		}
		if !allInt && !allFloat {
			// integers and floats in one group: the sum and the mean are the
			// mathematical ones (a float); min/max are left to the typed cases
			if n.S == "min" || n.S == "max" {
				// the extreme by value; whether it shows as integer or float
				// (2 and 2.0 tie) is left open
				best := math.Inf(1)
				if n.S == "max" {
					best = math.Inf(-1)
				}
				for _, v := range vals {
					x, ok := numAsFloat(v)
					if !ok {
						return nil, domain("%s over an integer beyond 2^53 mixed with floats", n.S)
					}
					if (n.S == "min" && x < best) || (n.S == "max" && x > best) {
						best = x
					}
				}
				return NumberOfEitherKind{V: best}, nil
			}
			var sum float64
			for _, v := range vals {
				switch x := v.(type) {
				case int64:
					if _, err := checkInt(x); err != nil {
						return nil, err
					}
					sum += float64(x)
				case float64:
					sum += x
				}
			}
			if n.S == "sum" {
				return sum, nil
			}
			return sum / float64(len(vals)), nil
		}
		if allInt {
			var sum int64
			mn, mx := vals[0].(int64), vals[0].(int64)
			for _, v := range vals {
				x := v.(int64)
				sum += x
				if x < mn {
					mn = x
				}
				if x > mx {
					mx = x
				}
			}
			if _, err := checkInt(sum); err != nil {
				return nil, err
			}
			switch n.S {
			case "sum":
				return sum, nil
			case "min":
				return mn, nil
			case "max":
				return mx, nil
			}
			return float64(sum) / float64(len(vals)), nil
		}
		var sum float64
		mn, mx := vals[0].(float64), vals[0].(float64)
		for _, v := range vals {
			x := v.(float64)
			sum += x
			if x < mn {
				mn = x
			}
			if x > mx {
				mx = x
			}
		}
		switch n.S {
		case "sum":
			return sum, nil
		case "min":
			return mn, nil
		case "max":
			return mx, nil
		}
		return sum / float64(len(vals)), nil
	case "group_concat":
		sepV, err := Eval(n.A[1], &Env{Defs: defs})
		if err != nil {
			return nil, err
		}
		sep, ok := sepV.(string)
		if !ok {
			return nil, domain("group_concat separator %T", sepV)
		}
		parts := make([]string, len(vals))
		for i, v := range vals {
			s, err := textOf(v)
			if err != nil {
				return nil, err
			}
			parts[i] = s
		}
		return strings.Join(parts, sep), nil
	case "json_arrayagg":
		items := make([]any, len(vals))
		for i, v := range vals {
			switch x := v.(type) {
			case int64:
				items[i] = float64(x)
			case float64:
				items[i] = x
			case string:
				if !utf8.ValidString(x) {
					return nil, domain("json_arrayagg over text that is not UTF-8")
				}
				items[i] = x
			case bool:
				items[i] = x
			default:
				return nil, domain("json_arrayagg over %T", v)
			}
		}
		return JSONArrayText{Items: items}, nil
	}
	return nil, domain("aggregate %s has no reference semantics", n.S)
}

// NumberOfEitherKind is a reference number whose integer/float kind the
// documentation leaves open: an engine integer or float of that value matches.
type NumberOfEitherKind struct{ V float64 }

// EqualRefVal compares a reference value with a normalised engine value.
// groupCol: the engine renders GROUP BY columns as text, a number's decimal
// text is accepted for the number there.
func EqualRefVal(want, got any, groupCol bool) bool {
	if ja, ok := want.(JSONArrayText); ok {
		s, ok := got.(string)
		if !ok {
			return false
		}
		var arr []any
		if err := json.Unmarshal([]byte(s), &arr); err != nil {
			return false
		}
		return EqualVal(Norm(arr), Norm(ja.Items)) || (len(arr) == 0 && len(ja.Items) == 0)
	}
	if nk, ok := want.(NumberOfEitherKind); ok {
		switch x := got.(type) {
		case int64:
			return float64(x) == nk.V
		case float64:
			return x == nk.V
		}
		return false
	}
	if EqualVal(want, got) {
		return true
	}
	if groupCol {
		if s, ok := got.(string); ok {
			switch x := want.(type) {
			case int64:
				return s == fmt.Sprintf("%d", x)
			case bool:
				return s == fmt.Sprintf("%v", x)
			case float64:
				// the text must read back as exactly that float
				f, err := strconv.ParseFloat(s, 64)
				return err == nil && f == x && orderNumRe.MatchString(s)
			}
		}
	}
	return false
}

// ---------------------------------------------------------------------------
// Order comparators (independent of the engine's)

// OrderCmp compares two column values under the declared type: text
// byte-wise, numbers numerically (across int/float and numeric text),
// false before true.
func OrderCmp(a, b any) (int, bool) {
	an, aok := orderNum(a)
	bn, bok := orderNum(b)
	_, as := a.(string)
	_, bs := b.(string)
	switch {
	case as && bs && !(aok && bok):
		return strings.Compare(a.(string), b.(string)), true
	case aok && bok && !(as && bs):
		return an.Cmp(bn), true
	}
	ab, ok1 := a.(bool)
	bb, ok2 := b.(bool)
	if ok1 && ok2 {
		switch {
		case ab == bb:
			return 0, true
		case !ab:
			return -1, true
		}
		return 1, true
	}
	return 0, false
}

var orderNumRe = regexp.MustCompile(`^[-+]?[0-9]+(\.[0-9]*)?([eE][-+]?[0-9]+)?$`)

// orderNum reads a returned column as an exact number (no rounding: integers
// near the int64 limits must not collapse onto one float).
func orderNum(v any) (*big.Float, bool) {
	f := new(big.Float).SetPrec(256)
	switch x := v.(type) {
	case int64:
		return f.SetInt64(x), true
	case float64:
		if math.IsNaN(x) || math.IsInf(x, 0) {
			return nil, false
		}
		return f.SetFloat64(x), true
	case string:
		if !orderNumRe.MatchString(x) {
			return nil, false
		}
		if _, ok := f.SetString(x); ok {
			return f, true
		}
	}
	return nil, false
}

// TextCmp / NumCmp are the typed comparators used when the declared type of
// the order field is known.
func TextCmp(a, b any) (int, bool) {
	x, ok1 := a.(string)
	y, ok2 := b.(string)
	if !ok1 || !ok2 {
		return 0, false
	}
	return strings.Compare(x, y), true
}

func NumCmp(a, b any) (int, bool) {
	x, ok1 := orderNum(a)
	y, ok2 := orderNum(b)
	if !ok1 || !ok2 {
		return 0, false
	}
	return x.Cmp(y), true
}

func BoolCmp(a, b any) (int, bool) {
	toB := func(v any) (bool, bool) {
		switch x := v.(type) {
		case bool:
			return x, true
		case string:
			if x == "true" {
				return true, true
			}
			if x == "false" {
				return false, true
			}
		}
		return false, false
	}
	x, ok1 := toB(a)
	y, ok2 := toB(b)
	if !ok1 || !ok2 {
		return 0, false
	}
	switch {
	case x == y:
		return 0, true
	case !x:
		return -1, true
	}
	return 1, true
}

// SortedStrings is a tiny helper for deterministic output.
func SortedStrings(m map[string]bool) []string {
	r := make([]string, 0, len(m))
	for k := range m {
		r = append(r, k)
	}
	sort.Strings(r)
	return r
}
