package lib

import (
	"strconv"
	"strings"
)

// Style-driven rendering for the parser checks (C15): parenthesisation by
// the DOCUMENTED precedence (README / property C15), independent of kvql's
// Token.Precedence.

// DocPrec is the documented binding strength: OR/| weakest, then AND/&,
// then comparisons with IN and BETWEEN, then + -, then * /, then unary !,
// call and field access.
func DocPrec(n *Node) int {
	switch n.K {
	case "bin":
		switch n.S {
		case "|", "or":
			return 1
		case "&", "and":
			return 2
		case "=", "!=", "^=", "~=", "<", "<=", ">", ">=":
			return 3
		case "+", "-":
			return 4
		case "*", "/":
			return 5
		}
	case "in", "inlist", "between":
		return 3
	case "not":
		return 6
	}
	return 7 // primary: literal, field, call, index, parenthesised
}

type RenderStyle struct {
	// Extra decides whether to add a redundant pair of parentheses around a
	// sub-expression (nil = never).
	Extra func() bool
	// Full parenthesises every binary sub-expression.
	Full bool
	// Word maps a keyword / operator word / function name to its spelling
	// (nil = lower case).
	Word func(string) string
	// noExtra: node that must not get redundant parentheses (the list-valued
	// right side of IN: `x in (f())` would read as a one-element list)
	noExtra *Node
}

func (st *RenderStyle) word(w string) string {
	if st != nil && st.Word != nil {
		return st.Word(w)
	}
	return w
}

// RenderStyled renders n with the fewest parentheses the documented
// precedence and left-associativity require (plus the style's extras).
func RenderStyled(n *Node, st *RenderStyle) string {
	var sb strings.Builder
	renderStyled(&sb, n, st, 0, false)
	return sb.String()
}

// needParen: child (precedence cp) under a binary parent of precedence pp.
func needParen(cp, pp int, right bool) bool {
	if cp < pp {
		return true
	}
	if cp == pp && right {
		return true // left-associative: a - (b - c) needs them
	}
	return false
}

func renderStyled(sb *strings.Builder, n *Node, st *RenderStyle, parentPrec int, right bool) {
	p := DocPrec(n)
	paren := parentPrec > 0 && needParen(p, parentPrec, right)
	if st != nil && st.Full && p < 6 && parentPrec > 0 {
		paren = true
	}
	extra := 0
	if st != nil && st.Extra != nil && n != st.noExtra && st.Extra() {
		extra = 1
	}
	if paren {
		extra++
	}
	for i := 0; i < extra; i++ {
		sb.WriteString("(")
	}
	switch n.K {
	case "key", "value":
		sb.WriteString(st.word(n.K))
	case "bool":
		if n.I != 0 {
			sb.WriteString(st.word("true"))
		} else {
			sb.WriteString(st.word("false"))
		}
	case "str":
		sb.WriteString(mustQuote(n.S))
	case "int":
		if n.S != "" {
			sb.WriteString(n.S) // the literal as it was spelled (007)
		} else {
			sb.WriteString(strconv.FormatInt(n.I, 10))
		}
	case "float":
		sb.WriteString(n.S)
	case "ref":
		sb.WriteString(SpellName(n.S))
	case "paren":
		sb.WriteString("(")
		renderStyled(sb, n.A[0], st, 0, false)
		sb.WriteString(")")
	case "not":
		sb.WriteString("!")
		renderStyled(sb, n.A[0], st, 6, true) // operand must be unary/primary
	case "bin":
		renderStyled(sb, n.A[0], st, p, false)
		op := n.S
		if op == "and" || op == "or" {
			op = st.word(op)
		}
		sb.WriteString(" " + op + " ")
		renderStyled(sb, n.A[1], st, p, true)
	case "in":
		renderStyled(sb, n.A[0], st, p, false)
		sb.WriteString(" " + st.word("in") + " (")
		for i, a := range n.A[1:] {
			if i > 0 {
				sb.WriteString(", ")
			}
			renderStyled(sb, a, st, 0, false)
		}
		sb.WriteString(")")
	case "inlist":
		renderStyled(sb, n.A[0], st, p, false)
		sb.WriteString(" " + st.word("in") + " ")
		if st != nil {
			st.noExtra = n.A[1]
		}
		renderStyled(sb, n.A[1], st, p, true)
	case "between":
		renderStyled(sb, n.A[0], st, p, false)
		sb.WriteString(" " + st.word("between") + " ")
		renderStyled(sb, n.A[1], st, p, true) // bounds bind tighter than comparisons
		sb.WriteString(" " + st.word("and") + " ")
		renderStyled(sb, n.A[2], st, p, true)
	case "call":
		sb.WriteString(st.word(n.S))
		sb.WriteString("(")
		for i, a := range n.A {
			if i > 0 {
				sb.WriteString(", ")
			}
			renderStyled(sb, a, st, 0, false)
		}
		sb.WriteString(")")
	case "index":
		renderStyled(sb, n.A[0], st, 7, false)
		sb.WriteString("[" + strconv.FormatInt(n.I, 10) + "]")
	case "field":
		renderStyled(sb, n.A[0], st, 7, false)
		sb.WriteString("[" + mustQuote(n.S) + "]")
	default:
		panic("renderStyled: unknown node kind " + n.K)
	}
	for i := 0; i < extra; i++ {
		sb.WriteString(")")
	}
}

// SExpr is the canonical structural form used to compare the generating tree
// with the engine's parse tree.
func SExpr(n *Node) string {
	var sb strings.Builder
	sexpr(&sb, n)
	return sb.String()
}

func sexpr(sb *strings.Builder, n *Node) {
	switch n.K {
	case "key":
		sb.WriteString("KEY")
	case "value":
		sb.WriteString("VALUE")
	case "bool":
		if n.I != 0 {
			sb.WriteString("true")
		} else {
			sb.WriteString("false")
		}
	case "str":
		sb.WriteString(strconv.Quote(n.S))
	case "int":
		sb.WriteString(strconv.FormatInt(n.I, 10))
	case "float":
		sb.WriteString("f" + strconv.FormatFloat(n.F, 'g', -1, 64))
	case "ref":
		sb.WriteString("name:" + n.S)
	case "paren":
		sexpr(sb, n.A[0])
	case "not":
		sb.WriteString("(! ")
		sexpr(sb, n.A[0])
		sb.WriteString(")")
	case "bin":
		sb.WriteString("(" + n.S + " ")
		sexpr(sb, n.A[0])
		sb.WriteString(" ")
		sexpr(sb, n.A[1])
		sb.WriteString(")")
	case "in":
		sb.WriteString("(in ")
		sexpr(sb, n.A[0])
		sb.WriteString(" (list")
		for _, a := range n.A[1:] {
			sb.WriteString(" ")
			sexpr(sb, a)
		}
		sb.WriteString("))")
	case "inlist":
		sb.WriteString("(in ")
		sexpr(sb, n.A[0])
		sb.WriteString(" ")
		sexpr(sb, n.A[1])
		sb.WriteString(")")
	case "between":
		sb.WriteString("(between ")
		sexpr(sb, n.A[0])
		sb.WriteString(" (list ")
		sexpr(sb, n.A[1])
		sb.WriteString(" ")
		sexpr(sb, n.A[2])
		sb.WriteString("))")
	case "call":
		sb.WriteString("(call " + strings.ToLower(n.S))
		for _, a := range n.A {
			sb.WriteString(" ")
			sexpr(sb, a)
		}
		sb.WriteString(")")
	case "index":
		sb.WriteString("([] ")
		sexpr(sb, n.A[0])
		sb.WriteString(" " + strconv.FormatInt(n.I, 10) + ")")
	case "field":
		sb.WriteString("([] ")
		sexpr(sb, n.A[0])
		sb.WriteString(" " + strconv.Quote(n.S) + ")")
	default:
		panic("sexpr: unknown node kind " + n.K)
	}
}
