package lib

import (
	"reflect"
	"testing"
)

func TestCaseJSONRoundTrip(t *testing.T) {
	type inner struct {
		Stmt  *Stmt
		Pairs []Pair
		Q     string
		M     map[string]string
		Any   []any
	}
	in := inner{
		Stmt:  &Stmt{Kind: "select", Star: true, Where: Bin("=", Key(), Str("\xff\x80a"))},
		Pairs: []Pair{{K: "\xff", V: ""}, {K: "\xff\xff", V: "\x00hex:zz"}, {K: "ok", V: "é"}},
		Q:     "select \xfe",
		M:     map[string]string{"a": "\x80"},
		Any:   []any{"\xff", int64(3)},
	}
	raw, err := EncodeCase(&in)
	if err != nil {
		t.Fatal(err)
	}
	var out inner
	if err := DecodeCase(raw, &out); err != nil {
		t.Fatal(err)
	}
	if out.Pairs[0].K != "\xff" || out.Pairs[1].K != "\xff\xff" || out.Pairs[1].V != "\x00hex:zz" || out.Q != in.Q || out.M["a"] != "\x80" {
		t.Fatalf("round trip lost bytes: %q", raw)
	}
	if out.Stmt.Render() != in.Stmt.Render() || !reflect.DeepEqual(out.Pairs, in.Pairs) {
		t.Fatalf("round trip changed the case: %q vs %q", out.Stmt.Render(), in.Stmt.Render())
	}
}
