package lib

import (
	"bytes"
	"errors"
	"fmt"
	"math"
	"runtime/debug"
	"sort"
	"strconv"
	"strings"

	"github.com/c4pt0r/kvql"
)

// ---------------------------------------------------------------------------
// Value model ("compared by content")

// Norm maps an engine column value to the reference value model.
func Norm(v any) any {
	switch x := v.(type) {
	case nil:
		return nil
	case []byte:
		return string(x)
	case string:
		return x
	case bool:
		return x
	case int:
		return int64(x)
	case int8:
		return int64(x)
	case int16:
		return int64(x)
	case int32:
		return int64(x)
	case int64:
		return x
	case uint:
		return int64(x)
	case uint8:
		return int64(x)
	case uint16:
		return int64(x)
	case uint32:
		return int64(x)
	case uint64:
		return int64(x)
	case float32:
		return float64(x)
	case float64:
		return x
	case []string:
		r := make([]any, len(x))
		for i, e := range x {
			r[i] = e
		}
		return r
	case [][]byte:
		r := make([]any, len(x))
		for i, e := range x {
			r[i] = string(e)
		}
		return r
	case []int64:
		r := make([]any, len(x))
		for i, e := range x {
			r[i] = e
		}
		return r
	case []int:
		r := make([]any, len(x))
		for i, e := range x {
			r[i] = int64(e)
		}
		return r
	case []float64:
		r := make([]any, len(x))
		for i, e := range x {
			r[i] = e
		}
		return r
	case []float32:
		r := make([]any, len(x))
		for i, e := range x {
			r[i] = float64(e)
		}
		return r
	case []any:
		r := make([]any, len(x))
		for i, e := range x {
			r[i] = Norm(e)
		}
		return r
	case kvql.JSON:
		r := make(map[string]any, len(x))
		for k, e := range x {
			r[k] = Norm(e)
		}
		return r
	case map[string]any:
		r := make(map[string]any, len(x))
		for k, e := range x {
			r[k] = Norm(e)
		}
		return r
	case []kvql.Expression:
		return fmt.Sprintf("<expression list of %d>", len(x))
	}
	return fmt.Sprintf("<%T>", v)
}

// EqualVal compares two normalised values: text as bytes, numbers by kind and
// value (NaN equals NaN), lists and JSON structurally.
func EqualVal(a, b any) bool {
	switch x := a.(type) {
	case nil:
		return b == nil
	case string:
		y, ok := b.(string)
		return ok && x == y
	case bool:
		y, ok := b.(bool)
		return ok && x == y
	case int64:
		y, ok := b.(int64)
		return ok && x == y
	case float64:
		y, ok := b.(float64)
		if !ok {
			return false
		}
		if math.IsNaN(x) && math.IsNaN(y) {
			return true
		}
		return x == y
	case []any:
		y, ok := b.([]any)
		if !ok || len(x) != len(y) {
			return false
		}
		for i := range x {
			if !EqualVal(x[i], y[i]) {
				return false
			}
		}
		return true
	case map[string]any:
		y, ok := b.(map[string]any)
		if !ok || len(x) != len(y) {
			return false
		}
		for k, xv := range x {
			yv, have := y[k]
			if !have || !EqualVal(xv, yv) {
				return false
			}
		}
		return true
	}
	return false
}

// ApproxEqualVal is EqualVal with a relative tolerance on floats (used only
// where the property states one: the distance functions).
func ApproxEqualVal(a, b any, rel float64) bool {
	x, ok1 := a.(float64)
	y, ok2 := b.(float64)
	if ok1 && ok2 {
		if x == y {
			return true
		}
		d := math.Abs(x - y)
		m := math.Max(math.Abs(x), math.Abs(y))
		return d <= rel*m || d <= 1e-12
	}
	return EqualVal(a, b)
}

func EqualRow(a, b []any) bool {
	if len(a) != len(b) {
		return false
	}
	for i := range a {
		if !EqualVal(a[i], b[i]) {
			return false
		}
	}
	return true
}

func EqualRows(a, b [][]any) bool {
	if len(a) != len(b) {
		return false
	}
	for i := range a {
		if !EqualRow(a[i], b[i]) {
			return false
		}
	}
	return true
}

// Show renders a normalised value unambiguously (kind-tagged) — also used as
// a canonical key for multiset comparison.
func Show(v any) string {
	switch x := v.(type) {
	case nil:
		return "nil"
	case string:
		return "t" + strconv.Quote(x)
	case bool:
		if x {
			return "true"
		}
		return "false"
	case int64:
		return "i" + strconv.FormatInt(x, 10)
	case float64:
		return "f" + strconv.FormatFloat(x, 'g', -1, 64)
	case []any:
		parts := make([]string, len(x))
		for i, e := range x {
			parts[i] = Show(e)
		}
		return "[" + strings.Join(parts, ",") + "]"
	case map[string]any:
		keys := make([]string, 0, len(x))
		for k := range x {
			keys = append(keys, k)
		}
		sort.Strings(keys)
		parts := make([]string, len(keys))
		for i, k := range keys {
			parts[i] = strconv.Quote(k) + ":" + Show(x[k])
		}
		return "{" + strings.Join(parts, ",") + "}"
	}
	return fmt.Sprintf("?%v", v)
}

func ShowRow(r []any) string {
	parts := make([]string, len(r))
	for i, e := range r {
		parts[i] = Show(e)
	}
	return "(" + strings.Join(parts, ", ") + ")"
}

func ShowRows(rows [][]any) string {
	parts := make([]string, len(rows))
	for i, r := range rows {
		parts[i] = ShowRow(r)
	}
	return "[" + strings.Join(parts, " ") + "]"
}

// SameMultiset compares two row lists as multisets.
func SameMultiset(a, b [][]any) bool {
	if len(a) != len(b) {
		return false
	}
	m := map[string]int{}
	for _, r := range a {
		m[ShowRow(r)]++
	}
	for _, r := range b {
		k := ShowRow(r)
		m[k]--
		if m[k] < 0 {
			return false
		}
	}
	return true
}

// ---------------------------------------------------------------------------
// Engine runner

type Cfg struct {
	Mode  string `json:"mode"`  // "row" | "batch"
	Batch int    `json:"batch"` // kvql.PlanBatchSize
	Cache bool   `json:"cache"` // kvql.EnableFieldCache
	// round 11, unusual but legal ways of driving a plan:
	// Past: polls (of the same form) issued after the plan has reported the
	// end of the rows; rows they return are appended to the result.
	Past int `json:"past,omitempty"`
	// StaleCtx: the execute context is created while the switch still has the
	// other value; the switch is set to Cache before the first poll.
	StaleCtx bool `json:"stalectx,omitempty"`
}

func (c Cfg) String() string {
	s := fmt.Sprintf("%s/bs=%d/cache=%v", c.Mode, c.Batch, c.Cache)
	if c.Past > 0 {
		s += fmt.Sprintf("/%d polls past the end", c.Past)
	}
	if c.StaleCtx {
		s += "/context created before the switch was set"
	}
	return s
}

type Result struct {
	Names    []string
	Rows     [][]any // normalised
	Raw      [][]kvql.Column
	BuildErr error
	ExecErr  error
	Panic    string // recovered panic (with stack), "" if none
	StepCap  bool   // drain exceeded the deterministic step cap
	Steps    int
	Plan     kvql.FinalPlan
	Polls    int
}

func (r *Result) Failed() bool {
	return r.BuildErr != nil || r.ExecErr != nil || r.Panic != "" || r.StepCap
}

func (r *Result) Describe() string {
	switch {
	case r.Panic != "":
		return "PANIC: " + firstLines(r.Panic, 12)
	case r.StepCap:
		return fmt.Sprintf("no termination within %d polls", r.Steps)
	case r.BuildErr != nil:
		return "build error: " + r.BuildErr.Error()
	case r.ExecErr != nil:
		return "execution error: " + r.ExecErr.Error()
	}
	return fmt.Sprintf("%d rows %s", len(r.Rows), ShowRows(r.Rows))
}

func firstLines(s string, n int) string {
	lines := strings.Split(s, "\n")
	if len(lines) > n {
		lines = lines[:n]
	}
	return strings.Join(lines, "\n")
}

func init() {
	// Runaway recursion must die quickly instead of eating a gigabyte per
	// shard (Go fatal errors bypass recover; the driver handles the death).
	debug.SetMaxStack(64 << 20)
}

// SetGlobals installs the package-level switches for one run.
func SetGlobals(cfg Cfg) {
	if cfg.Batch <= 0 {
		cfg.Batch = 32
	}
	kvql.PlanBatchSize = cfg.Batch
	kvql.EnableFieldCache = cfg.Cache
}

// Build builds a plan, converting a panic into a result value.
func Build(query string, st kvql.Storage, cfg Cfg) (res *Result) {
	res = &Result{}
	SetGlobals(cfg)
	defer func() {
		if p := recover(); p != nil {
			res.Panic = fmt.Sprintf("%v\n%s", p, trimStack(debug.Stack()))
		}
	}()
	plan, err := kvql.NewOptimizer(query).BuildPlan(st)
	if err != nil {
		res.BuildErr = err
		return res
	}
	res.Plan = plan
	res.Names = plan.FieldNameList()
	return res
}

// Drain polls the plan to exhaustion the way a caller does: Next until nil,
// or Batch until an empty batch. capPolls bounds the number of polls
// deterministically (no clock).
func Drain(res *Result, cfg Cfg, capPolls int) {
	if res.Plan == nil {
		return
	}
	defer func() {
		if p := recover(); p != nil {
			res.Panic = fmt.Sprintf("%v\n%s", p, trimStack(debug.Stack()))
		}
	}()
	SetGlobals(cfg)
	var ctx *kvql.ExecuteCtx
	if cfg.StaleCtx {
		kvql.EnableFieldCache = !cfg.Cache
		ctx = kvql.NewExecuteCtx()
		kvql.EnableFieldCache = cfg.Cache
	} else {
		ctx = kvql.NewExecuteCtx()
	}
	past := cfg.Past
	for {
		res.Polls++
		if res.Polls > capPolls {
			res.StepCap = true
			res.Steps = capPolls
			return
		}
		if cfg.Mode == "row" {
			cols, err := res.Plan.Next(ctx)
			if err != nil {
				res.ExecErr = err
				return
			}
			if cols == nil {
				if past > 0 {
					past--
					continue
				}
				return
			}
			res.Raw = append(res.Raw, cols)
			res.Rows = append(res.Rows, normRow(cols))
		} else {
			rows, err := res.Plan.Batch(ctx)
			if err != nil {
				res.ExecErr = err
				return
			}
			if len(rows) == 0 {
				if past > 0 {
					past--
					continue
				}
				return
			}
			for _, cols := range rows {
				res.Raw = append(res.Raw, cols)
				res.Rows = append(res.Rows, normRow(cols))
			}
		}
	}
}

func normRow(cols []kvql.Column) []any {
	r := make([]any, len(cols))
	for i, c := range cols {
		r[i] = Norm(c)
	}
	return r
}

// Run = Build + Drain with the standard step cap.
func Run(query string, st kvql.Storage, nPairs int, cfg Cfg) *Result {
	res := Build(query, st, cfg)
	if res.Plan == nil {
		return res
	}
	Drain(res, cfg, 4*nPairs+len(query)+64)
	return res
}

func trimStack(b []byte) string {
	// keep the frames from the panic site down to the first harness frame
	lines := bytes.Split(b, []byte("\n"))
	var out [][]byte
	started := false
	for i := 0; i < len(lines); i++ {
		l := lines[i]
		if !started {
			if bytes.Contains(l, []byte("panic(")) {
				started = true
			}
			continue
		}
		out = append(out, l)
		if len(out) > 24 {
			break
		}
	}
	if len(out) == 0 {
		return string(b)
	}
	return string(bytes.Join(out, []byte("\n")))
}

// RenderError binds the query and renders the message (C06 / C17 legs); a
// panic in rendering is returned as text.
func RenderError(err error, query string, pad int) (text string, panicked string) {
	defer func() {
		if p := recover(); p != nil {
			panicked = fmt.Sprintf("%v\n%s", p, trimStack(debug.Stack()))
		}
	}()
	if qb, ok := err.(kvql.QueryBinder); ok {
		qb.BindQuery(query)
		if pad >= 0 {
			qb.SetPadding(pad)
		}
	}
	return err.Error(), ""
}

// ErrPos extracts the position of a positional error.
func ErrPos(err error) (int, bool) {
	var se *kvql.SyntaxError
	if errors.As(err, &se) {
		return se.Pos, true
	}
	var ee *kvql.ExecuteError
	if errors.As(err, &ee) {
		return ee.Pos, true
	}
	return 0, false
}

// ScanNode walks exported ChildPlan fields down to the scan node.
func ScanNode(p any) any {
	for {
		switch x := p.(type) {
		case *kvql.ProjectionPlan:
			p = x.ChildPlan
		case *kvql.AggregatePlan:
			p = x.ChildPlan
		case *kvql.FinalOrderPlan:
			p = x.ChildPlan
		case *kvql.FinalLimitPlan:
			p = x.ChildPlan
		case *kvql.LimitPlan:
			p = x.ChildPlan
		case *kvql.DeletePlan:
			p = x.ChildPlan
		default:
			return p
		}
	}
}
