package lib

import (
	"fmt"
	"math"
	"strings"

	"pgregory.net/rapid"
)

// Statement generators over the typed grammar (DESIGN.md §2.2).

type SelOpts struct {
	Aliases   bool // define named fields and use the names
	Aggregate int  // 0 never, 1 sometimes, 2 always
	Order     bool // may add ORDER BY
	Limit     bool // may add LIMIT
	Exotic    bool // constructs outside the reference evaluator (differential checks only)
	MinFields int
	// MixedNumeric lets aggregates take `value` of a store that mixes integer
	// and float texts, so sum/min/max are integers in some groups and floats
	// in others (no reference value; metamorphic / differential checks only)
	MixedNumeric bool
	// NameChains: half of the statements get a chain of name-only fields
	// (otherwise one in eight)
	NameChains bool
}

var aliasPrefix = map[Ty]string{
	TyText: "t", TyInt: "n", TyFloat: "f", TyBool: "b", TyListText: "l", TyListInt: "li",
}

func (c *GenCtx) addAlias(name string, def *Node) {
	if c.Refs == nil {
		c.Refs = map[Ty][]string{}
	}
	if c.Defs == nil {
		c.Defs = map[string]*Node{}
	}
	c.Refs[def.T] = append(c.Refs[def.T], name)
	c.Defs[name] = def
}

// GenListText draws a text-list expression.
func (c *GenCtx) GenListText(t *rapid.T) *Node {
	if refs := c.refsOf(TyListText); len(refs) > 0 && rapid.IntRange(0, 3).Draw(t, "listRef") != 0 {
		return Ref(rapid.SampledFrom(refs).Draw(t, "listTextRef"), TyListText)
	}
	if rapid.IntRange(0, 3).Draw(t, "listOfTexts") == 0 {
		// list() over text arguments, also texts that read as numbers and
		// texts taken from the store: the elements stay texts
		n := rapid.IntRange(1, 3).Draw(t, "listOfTextsN")
		args := make([]*Node, n)
		for i := range args {
			if rapid.Bool().Draw(t, "numericText") {
				args[i] = Str(rapid.SampledFrom([]string{"1", "2", "007", "1.5", "12", "0"}).Draw(t, "numericTextLit"))
			} else {
				args[i] = Str(c.textLiteral(t))
			}
		}
		return Call("list", args...)
	}
	sep := rapid.SampledFrom([]string{",", "b", "-"}).Draw(t, "splitSep")
	src := Value()
	if c.NoValue || rapid.IntRange(0, 2).Draw(t, "splitKey") == 0 {
		src = Key()
		if c.NoKey {
			src = Str("a,b,c")
		}
	}
	return Call("split", src, Str(sep))
}

func (c *GenCtx) GenListInt(t *rapid.T) *Node {
	if refs := c.refsOf(TyListInt); len(refs) > 0 && rapid.IntRange(0, 3).Draw(t, "listIntRef") != 0 {
		return Ref(rapid.SampledFrom(refs).Draw(t, "listIntRefName"), TyListInt)
	}
	n := rapid.IntRange(1, 4).Draw(t, "listN")
	args := make([]*Node, n)
	for i := range args {
		args[i] = c.GenInt(t, 1)
	}
	return Call(rapid.SampledFrom([]string{"list", "int_list", "ilist"}).Draw(t, "intListFn"), args...)
}

// GenTyped draws an expression of the given dynamic type.
func (c *GenCtx) GenTyped(t *rapid.T, ty Ty, depth int) *Node {
	switch ty {
	case TyText:
		return c.GenText(t, depth)
	case TyInt:
		return c.GenInt(t, depth)
	case TyFloat:
		return c.GenFloat(t, depth)
	case TyBool:
		return c.GenBool(t, depth)
	case TyListText:
		return c.GenListText(t)
	case TyListInt:
		return c.GenListInt(t)
	}
	panic("GenTyped: unsupported type")
}

// ListPredicate: predicates that use list values (IN over a list, len, [n]).
func (c *GenCtx) ListPredicate(t *rapid.T) *Node {
	switch rapid.IntRange(0, 3).Draw(t, "listPred") {
	case 0:
		return InList(Str(c.textLiteral(t)), c.GenListText(t))
	case 1:
		return InList(c.GenInt(t, 0), c.GenListInt(t))
	case 2:
		op := rapid.SampledFrom([]string{"=", ">", "<="}).Draw(t, "lenOp")
		return Bin(op, Call("len", c.GenListText(t)), Int(int64(rapid.IntRange(1, 3).Draw(t, "lenLit"))))
	default:
		return Bin("=", Index(c.GenListText(t), 0), Str(c.textLiteral(t)))
	}
}

// GenWhere draws a WHERE predicate; with aliases in scope it makes sure they
// are used at varied positions.
func (c *GenCtx) GenWhere(t *rapid.T, depth int) *Node {
	w := c.GenBool(t, depth)
	if rapid.IntRange(0, 5).Draw(t, "whereListPred") == 0 {
		op := rapid.SampledFrom([]string{"&", "|", "and", "or"}).Draw(t, "whereListOp")
		w = Bin(op, w, c.ListPredicate(t))
	}
	return w
}

var fieldTypes = []Ty{TyText, TyInt, TyFloat, TyBool, TyListText, TyListInt}

// GenSelect draws a SELECT statement whose meaning the reference evaluator
// defines (unless o.Exotic).
func GenSelect(t *rapid.T, kind StoreKind, pairs []Pair, o SelOpts) *Stmt {
	c := &GenCtx{Kind: kind, Pairs: pairs, Exotic: o.Exotic, MixedNumeric: o.MixedNumeric}
	if o.Aliases {
		c.RefBias = 35
		if o.Exotic {
			c.RefBias = 20
		}
	}
	st := &Stmt{Kind: "select"}
	aggregate := o.Aggregate == 2 || (o.Aggregate == 1 && rapid.IntRange(0, 3).Draw(t, "aggregate") == 0)
	if aggregate {
		genAggregateSelect(t, c, st, o)
	} else {
		if !o.Aliases && o.MinFields == 0 && rapid.IntRange(0, 3).Draw(t, "star") == 0 {
			st.Star = true
		} else {
			n := rapid.IntRange(max(1, o.MinFields), 4).Draw(t, "nfields")
			seq := 0
			usedNames := map[Ty][]string{}
			for i := 0; i < n; i++ {
				var e *Node
				switch rapid.IntRange(0, 5).Draw(t, "fieldForm") {
				case 0:
					e = Key()
				case 1:
					e = Value()
				default:
					ty := rapid.SampledFrom(fieldTypes).Draw(t, "fieldType")
					e = c.GenTyped(t, ty, rapid.IntRange(0, 2).Draw(t, "fieldDepth"))
					// a bare name as a whole select field (int(value) as n, n as m)
					// refers to the named field like any other use of the name
				}
				f := SelField{E: e}
				if o.Aliases && rapid.IntRange(0, 3).Draw(t, "aliased") != 0 {
					if p, ok := aliasPrefix[e.T]; ok {
						seq++
						f.Alias = aliasName(t, p, seq)
					}
				}
				dup := false
				if f.Alias != "" && len(usedNames[e.T]) > 0 && rapid.IntRange(0, 11).Draw(t, "caseVariantName") == 0 {
					// a name that differs from an earlier one only in the case of
					// its letters is another name (t1 and `T1`)
					earlier := rapid.SampledFrom(usedNames[e.T]).Draw(t, "caseVariantOf")
					variant := strings.ToUpper(earlier)
					if variant == earlier {
						variant = strings.ToLower(earlier)
					}
					if _, taken := c.Defs[variant]; !taken && variant != earlier {
						f.Alias = variant
					}
				}
				if f.Alias != "" && len(usedNames[e.T]) > 0 && rapid.IntRange(0, 9).Draw(t, "repeatName") == 0 {
					// a later field may repeat the name of an earlier field (of
					// the same type, so that the name stays as orderable as the
					// generator assumes): the name keeps referring to the first
					f.Alias = rapid.SampledFrom(usedNames[e.T]).Draw(t, "repeatedName")
					dup = true
				}
				st.Fields = append(st.Fields, f)
				if f.Alias != "" && !dup {
					usedNames[e.T] = append(usedNames[e.T], f.Alias)
					c.addAlias(f.Alias, e)
				}
			}
		}
		chainOdds := 7
		if o.NameChains {
			chainOdds = 1
		}
		if o.Aliases && !st.Star && rapid.IntRange(0, chainOdds).Draw(t, "nameChain") == 0 {
			genNameChain(t, c, st)
		}
		st.Where = c.GenWhere(t, rapid.IntRange(0, 3).Draw(t, "whereDepth"))
	}
	if o.Order && rapid.IntRange(0, 2).Draw(t, "ordered") == 0 {
		genOrder(t, st)
	}
	if o.Limit && rapid.IntRange(0, 2).Draw(t, "limited") == 0 {
		st.Lim = GenLimit(t, len(pairs))
	}
	genSemis(t, st)
	return st
}

// genNameChain adds fields that are only names (n as z1, z1 as z2, ..), each
// at a random place of the select list: in front of or behind the field it
// names. The order of the list does not change what a name stands for.
func genNameChain(t *rapid.T, c *GenCtx, st *Stmt) {
	var bases []SelField
	seen := map[string]bool{}
	for _, f := range st.Fields {
		if f.Alias != "" && !seen[f.Alias] {
			bases = append(bases, f)
		}
		seen[f.Alias] = true
	}
	if len(bases) == 0 {
		return
	}
	base := rapid.SampledFrom(bases).Draw(t, "chainBase")
	// a concatenation that starts with a name is a text only once the name is
	// resolved: one chain in three ends in such a field (added behind the
	// field it uses) when a text name is there to build it on
	if refs := c.refsOf(TyText); len(refs) > 0 && rapid.IntRange(0, 2).Draw(t, "chainOnConcat") == 0 {
		e := Bin("+", Ref(rapid.SampledFrom(refs).Draw(t, "concatRef"), TyText), Str(rapid.SampledFrom([]string{"x", "", "0"}).Draw(t, "concatLit")))
		base = SelField{E: e, Alias: "zc"}
		st.Fields = append(st.Fields, base)
		c.addAlias("zc", e)
	}
	prev := base.Alias
	k := rapid.IntRange(2, 4).Draw(t, "chainLen")
	for i := 1; i <= k; i++ {
		name := fmt.Sprintf("z%d", i)
		f := SelField{E: Ref(prev, base.E.T), Alias: name}
		pos := rapid.IntRange(0, len(st.Fields)).Draw(t, "chainPos")
		st.Fields = append(st.Fields, SelField{})
		copy(st.Fields[pos+1:], st.Fields[pos:])
		st.Fields[pos] = f
		c.addAlias(name, f.E)
		prev = name
	}
}

// genSemis: now and then the statement ends in one or two semicolons.
func genSemis(t *rapid.T, st *Stmt) {
	if rapid.IntRange(0, 9).Draw(t, "semis") == 0 {
		st.Semis = rapid.IntRange(1, 2).Draw(t, "nsemis")
	}
}

func max(a, b int) int {
	if a > b {
		return a
	}
	return b
}

// GenLimit draws offsets/counts around 0, the store size and batch multiples.
func GenLimit(t *rapid.T, n int) *Limit {
	pool := []int{0, 1, 2, 3, 5, 31, 32, 33, 64}
	pool = append(pool, n, n+1, max(n-1, 0), n/2)
	l := &Limit{Count: rapid.SampledFrom(pool).Draw(t, "limCount")}
	if rapid.Bool().Draw(t, "limTwo") {
		l.Two = true
		l.Start = rapid.SampledFrom(pool).Draw(t, "limStart")
	}
	if rapid.IntRange(0, 9).Draw(t, "limHuge") == 0 {
		// "everything after row s": counts near the integer limits
		l.Count = rapid.SampledFrom([]int{math.MaxInt64, math.MaxInt64 - 1, math.MaxInt64 - l.Start, 1 << 32}).Draw(t, "limHugeCount")
	}
	return l
}

// orderable: names of select fields that ORDER BY can use (aliases of
// text/number/bool fields, and selected key/value).
func orderable(st *Stmt) []string {
	var names []string
	if st.Star {
		return []string{"key", "value"}
	}
	for _, f := range st.Fields {
		switch {
		case f.Alias != "" && (f.E.T == TyText || f.E.T == TyInt || f.E.T == TyFloat || f.E.T == TyBool):
			names = append(names, f.Alias)
		case f.Alias == "" && f.E.K == "key":
			names = append(names, "key")
		case f.Alias == "" && f.E.K == "value":
			names = append(names, "value")
		}
	}
	return names
}

func genOrder(t *rapid.T, st *Stmt) {
	names := orderable(st)
	if len(names) == 0 {
		return
	}
	n := rapid.IntRange(1, 3).Draw(t, "norder")
	for i := 0; i < n; i++ {
		st.Order = append(st.Order, OrderKey{
			Name: rapid.SampledFrom(names).Draw(t, "orderName"),
			Dir:  rapid.SampledFrom([]string{"", "asc", "desc"}).Draw(t, "orderDir"),
		})
	}
}

// aliasName: mostly a plain word; now and then a name that only backquotes
// can spell (a blank or a dash inside, upper case that must be kept).
func aliasName(t *rapid.T, prefix string, seq int) string {
	switch rapid.IntRange(0, 11).Draw(t, "nameSpelling") {
	case 0:
		return fmt.Sprintf("%s %d", prefix, seq)
	case 1:
		return fmt.Sprintf("%s-%d", strings.ToUpper(prefix), seq)
	}
	return fmt.Sprintf("%s%d", prefix, seq)
}

// genAggregateSelect: group columns (each a GROUP BY expression) + aggregate
// fields; every non-aggregate select field is one of the GROUP BY expressions.
func genAggregateSelect(t *rapid.T, c *GenCtx, st *Stmt, o SelOpts) {
	ngroup := rapid.IntRange(0, 3).Draw(t, "ngroup")
	seq := 0
	var groupRefs []*Node
	var groupVals []*Node // group by values usable inside an aggregate field
	for i := 0; i < ngroup; i++ {
		var e *Node
		switch rapid.IntRange(0, 6).Draw(t, "groupForm") {
		case 6:
			// a Boolean group column (false before true when it is ordered by)
			e = rapid.SampledFrom([]*Node{Bin(">", Call("strlen", Key()), Int(1)), Call("is_int", Value()), Bin("^=", Key(), Str("a"))}).Draw(t, "groupBool")
		case 0:
			e = Key()
		case 1:
			e = Value()
		case 2:
			e = Call(rapid.SampledFrom([]string{"upper", "lower"}).Draw(t, "groupCase"), rapid.SampledFrom([]*Node{Key(), Value()}).Draw(t, "groupCaseArg"))
		case 3:
			e = Call("strlen", rapid.SampledFrom([]*Node{Key(), Value()}).Draw(t, "groupLenArg"))
		case 4:
			switch {
			case c.Kind == KInt:
				e = Call("int", Value())
			case c.Kind == KFloat && c.MixedNumeric:
				e = Call("float", Value()) // a float-valued group column
			default:
				e = Call("strlen", Key())
			}
		default:
			e = Call("str", Call("strlen", Key()))
		}
		if o.Aliases && len(groupRefs) > 0 && rapid.IntRange(0, 2).Draw(t, "groupOnName") == 0 {
			// a group column defined through the name of an earlier one
			r := rapid.SampledFrom(groupRefs).Draw(t, "groupName").Clone()
			switch {
			case r.T == TyText && rapid.Bool().Draw(t, "groupNameText"):
				e = Call("upper", r)
			case r.T == TyText:
				e = Bin("+", r, Str("x"))
			case rapid.Bool().Draw(t, "groupNameInt"):
				e = Bin("+", r, Int(1))
			default:
				e = Call("str", r)
			}
		}
		if e.K == "key" || e.K == "value" {
			if rapid.Bool().Draw(t, "groupBare") {
				// bare key/value: group by key|value, selected as is
				st.Fields = append(st.Fields, SelField{E: e})
				st.Group = append(st.Group, e.K)
				continue
			}
		}
		seq++
		name := aliasName(t, "g", seq)
		st.Fields = append(st.Fields, SelField{E: e, Alias: name})
		st.Group = append(st.Group, name)
		c.addAlias(name, e)
		if e.T == TyText || e.T == TyInt {
			groupRefs = append(groupRefs, Ref(name, e.T))
			if o.Aliases {
				groupVals = append(groupVals, Ref(name, e.T))
			} else {
				groupVals = append(groupVals, e)
			}
		}
	}
	nagg := rapid.IntRange(1, 3).Draw(t, "nagg")
	var aggRefs []*Node // names of earlier numeric aggregate fields
	for i := 0; i < nagg; i++ {
		e := genAggrExpr(t, c)
		if len(groupVals) > 0 && e.T == TyInt && rapid.IntRange(0, 4).Draw(t, "aggWithGroupValue") == 0 {
			// a GROUP BY value next to the aggregate in one field: it is that
			// group's value (strlen(key) + count(1), g1 * count(1))
			g := rapid.SampledFrom(groupVals).Draw(t, "groupValue").Clone()
			if g.T == TyInt {
				e = Bin(rapid.SampledFrom([]string{"+", "*", "-"}).Draw(t, "groupValueOp"), g, e)
			} else {
				e = Bin("+", g, Call("str", e))
			}
		} else if e.T == TyInt && rapid.IntRange(0, 7).Draw(t, "aggInScalar") == 0 {
			// the aggregate inside the argument of a scalar function
			e = Call("str", e)
		}
		if len(aggRefs) > 0 && (e.T == TyInt || e.T == TyFloat) && rapid.IntRange(0, 2).Draw(t, "aggUsesName") == 0 {
			// an aggregate field built on the name of an earlier one, as an
			// operand or inside a function argument
			r := rapid.SampledFrom(aggRefs).Draw(t, "aggName").Clone()
			if rapid.Bool().Draw(t, "aggNameInCall") {
				if r.T == TyInt {
					r = Call("int", r)
				} else {
					r = Call("float", r)
				}
			}
			e = Bin(rapid.SampledFrom([]string{"+", "-", "*"}).Draw(t, "aggNameOp"), r, e)
		}
		seq++
		f := SelField{E: e}
		if rapid.Bool().Draw(t, "aggAliased") {
			f.Alias = aliasName(t, "a", seq)
			if e.T == TyInt || e.T == TyFloat {
				aggRefs = append(aggRefs, Ref(f.Alias, e.T))
			}
		}
		st.Fields = append(st.Fields, f)
	}
	// shuffle the select list a little: aggregates may come first
	// (not when it uses field names: a name used before its field is listed
	// only resolves when that field uses no further names, which the
	// language does not promise either way)
	lastUsesNames := st.Fields[len(st.Fields)-1].E.Has(func(x *Node) bool { return x.K == "ref" })
	if len(st.Fields) > 1 && !lastUsesNames && rapid.Bool().Draw(t, "aggFirst") {
		last := st.Fields[len(st.Fields)-1]
		copy(st.Fields[1:], st.Fields[:len(st.Fields)-1])
		st.Fields[0] = last
	}
	plain := &GenCtx{Kind: c.Kind, Pairs: c.Pairs, Exotic: c.Exotic}
	st.Where = plain.GenBool(t, rapid.IntRange(0, 2).Draw(t, "aggWhereDepth"))
}

func aggrArg(t *rapid.T, c *GenCtx) *Node {
	if c.MixedNumeric && c.Kind == KFloat && rapid.IntRange(0, 2).Draw(t, "mixedAggrArg") != 0 {
		return Value() // numeric text: integers and floats mixed
	}
	if c.MixedNumeric && c.Kind == KInt && rapid.IntRange(0, 3).Draw(t, "textAggrArg") == 0 {
		return Value() // integer text as it is stored (010 is ten)
	}
	switch rapid.IntRange(0, 4).Draw(t, "aggrArg") {
	case 0:
		return Call("strlen", Key())
	case 1:
		if c.Kind == KInt {
			return Call("int", Value())
		}
		return Call("strlen", Value())
	case 2:
		if c.Kind == KInt || c.Kind == KFloat {
			return Call("float", Value())
		}
		return Bin("*", Call("strlen", Key()), Float("0.5"))
	case 3:
		return Int(int64(rapid.IntRange(1, 3).Draw(t, "aggrLit")))
	default:
		return Bin("+", Call("strlen", Key()), Int(int64(rapid.IntRange(0, 3).Draw(t, "aggrAdd"))))
	}
}

func genAggrCall(t *rapid.T, c *GenCtx) *Node {
	switch rapid.IntRange(0, 7).Draw(t, "aggrFn") {
	case 0:
		return Call("count", Int(1))
	case 1, 2:
		return Call("sum", aggrArg(t, c))
	case 3:
		return Call("min", aggrArg(t, c))
	case 4:
		return Call("max", aggrArg(t, c))
	case 5:
		return Call("avg", aggrArg(t, c))
	case 6:
		arg := rapid.SampledFrom([]*Node{Key(), Value(), Call("strlen", Key()), Call("upper", Key())}).Draw(t, "concatArg")
		return Call("group_concat", arg, Str(rapid.SampledFrom([]string{",", "", "ab"}).Draw(t, "concatSep")))
	default:
		if c.Exotic && rapid.Bool().Draw(t, "quantile") {
			return Call("quantile", aggrArg(t, c), Float(rapid.SampledFrom([]string{"0.5", "0.9", "0.0", "1.0"}).Draw(t, "quantileP")))
		}
		if c.Exotic && rapid.IntRange(0, 3).Draw(t, "quantileOdd") == 0 {
			// percents outside [0, 1], written as constant expressions
			p := rapid.SampledFrom([]*Node{Bin("-", Int(0), Float("0.5")), Bin("-", Float("0.25"), Int(1)), Float("1.5"), Int(2), Bin("/", Float("1.0"), Int(3)), Bin("-", Int(0), Int(1))}).Draw(t, "quantileOddP")
			return Call("quantile", aggrArg(t, c), p.Clone())
		}
		arg := rapid.SampledFrom([]*Node{Key(), Value(), Call("strlen", Key())}).Draw(t, "arrayaggArg")
		return Call("json_arrayagg", arg)
	}
}

func genAggrExpr(t *rapid.T, c *GenCtx) *Node {
	a := genAggrCall(t, c)
	if a.T == TyText {
		return a
	}
	switch rapid.IntRange(0, 6).Draw(t, "aggrArith") {
	case 6:
		// a Boolean aggregate field; Boolean simplification with a constant
		// side must leave it an aggregate field (one row per group)
		cmp := Bin(rapid.SampledFrom([]string{">", "<=", "="}).Draw(t, "aggrCmp"), a, Int(int64(rapid.IntRange(0, 3).Draw(t, "aggrCmpLit"))))
		if rapid.IntRange(0, 2).Draw(t, "aggrNot") == 0 {
			cmp = Not(cmp) // the aggregate sits under a !
		}
		switch rapid.IntRange(0, 4).Draw(t, "aggrBool") {
		case 0:
			return Bin("|", cmp, Bin("=", Int(1), Int(1)))
		case 1:
			return Bin("&", Bin("=", Int(1), Int(2)), cmp)
		case 2:
			return Bin("or", Bin("=", Int(1), Int(2)), cmp)
		case 3:
			return Bin("and", cmp, Bin(">", Call("count", Int(1)), Int(1)))
		}
		return cmp
	case 0:
		return Bin("+", a, Int(1))
	case 1:
		b := genAggrCall(t, c)
		if b.T == TyText {
			return a
		}
		return Bin("-", a, b)
	case 2:
		return Bin("/", a, Call("count", Int(1)))
	}
	return a
}

// ---- writes -----------------------------------------------------------------

// GenPut draws a PUT statement: 1..6 pairs; keys are text/integer
// expressions without key/value, values may use `key`.
func GenPut(t *rapid.T, kind StoreKind, pairs []Pair, exotic bool) *Stmt {
	kc := &GenCtx{Kind: kind, Pairs: pairs, NoKey: true, NoValue: true, Exotic: exotic}
	vc := &GenCtx{Kind: kind, Pairs: pairs, NoValue: true, Exotic: exotic}
	st := &Stmt{Kind: "put"}
	n := rapid.IntRange(1, 6).Draw(t, "nput")
	var prevKey *Node
	for i := 0; i < n; i++ {
		var k *Node
		switch {
		case prevKey != nil && rapid.IntRange(0, 3).Draw(t, "dupKey") == 0:
			k = prevKey.Clone()
		case rapid.IntRange(0, 4).Draw(t, "intKey") == 0:
			k = kc.GenInt(t, 1)
			if rapid.IntRange(0, 2).Draw(t, "intKeySpelled") == 0 {
				// a plain integer literal with leading zeros: the key is the
				// number, written in decimal (007 is the key 7)
				k = SpelledInt(int64(rapid.IntRange(0, 12).Draw(t, "intKeyLit")), rapid.IntRange(1, 2).Draw(t, "intKeyZeros"))
			}
		default:
			k = kc.GenText(t, rapid.IntRange(0, 2).Draw(t, "putKeyDepth"))
		}
		var v *Node
		if rapid.IntRange(0, 4).Draw(t, "intVal") == 0 {
			v = vc.GenInt(t, 1)
			if rapid.IntRange(0, 2).Draw(t, "intValSpelled") == 0 {
				v = SpelledInt(int64(rapid.IntRange(0, 12).Draw(t, "intValLit")), rapid.IntRange(1, 2).Draw(t, "intValZeros"))
			}
		} else {
			v = vc.GenText(t, rapid.IntRange(0, 2).Draw(t, "putValDepth"))
		}
		st.Pairs = append(st.Pairs, [2]*Node{k, v})
		prevKey = k
	}
	genSemis(t, st)
	return st
}

func GenRemove(t *rapid.T, kind StoreKind, pairs []Pair, exotic bool) *Stmt {
	kc := &GenCtx{Kind: kind, Pairs: pairs, NoKey: true, NoValue: true, Exotic: exotic}
	st := &Stmt{Kind: "remove"}
	n := rapid.IntRange(1, 6).Draw(t, "nremove")
	for i := 0; i < n; i++ {
		if rapid.IntRange(0, 5).Draw(t, "intRemoveKey") == 0 {
			st.Keys = append(st.Keys, kc.GenInt(t, 1))
		} else {
			st.Keys = append(st.Keys, kc.GenText(t, rapid.IntRange(0, 2).Draw(t, "removeDepth")))
		}
	}
	genSemis(t, st)
	return st
}

func GenDelete(t *rapid.T, kind StoreKind, pairs []Pair, exotic bool) *Stmt {
	c := &GenCtx{Kind: kind, Pairs: pairs, Exotic: exotic}
	st := &Stmt{Kind: "delete", Where: c.GenBool(t, rapid.IntRange(0, 3).Draw(t, "deleteDepth"))}
	if rapid.IntRange(0, 2).Draw(t, "deleteLimited") == 0 {
		st.Lim = GenLimit(t, len(pairs))
	}
	genSemis(t, st)
	return st
}

// GenAnyStmt draws a statement of any kind of the full language.
func GenAnyStmt(t *rapid.T, kind StoreKind, pairs []Pair, exotic bool) *Stmt {
	switch rapid.IntRange(0, 9).Draw(t, "stmtKind") {
	case 0:
		return GenPut(t, kind, pairs, exotic)
	case 1:
		return GenRemove(t, kind, pairs, exotic)
	case 2:
		return GenDelete(t, kind, pairs, exotic)
	default:
		return GenSelect(t, kind, pairs, SelOpts{Aliases: true, Aggregate: 1, Order: true, Limit: true, Exotic: exotic})
	}
}

// ForceOrder adds an ORDER BY clause when the statement has an orderable field.
func ForceOrder(t *rapid.T, st *Stmt) {
	st.Order = nil
	genOrder(t, st)
}

// GenAggrExpr draws an aggregate select field (possibly with arithmetic around it).
func GenAggrExpr(t *rapid.T, kind StoreKind, pairs []Pair) *Node {
	return genAggrExpr(t, &GenCtx{Kind: kind, Pairs: pairs})
}
