package lib

import (
	"encoding/hex"
	"encoding/json"
	"reflect"
	"strings"
	"unicode/utf8"
)

// Replay files must reproduce byte for byte. encoding/json replaces the bytes
// of a string that are not valid UTF-8 by U+FFFD, so keys such as "\xff" and
// "\xff\xff" would come back as different, possibly equal, keys. EncodeCase /
// DecodeCase write every such string as a marker followed by its hex form.

const hexMarker = "\x00hex:"

func encStr(s string) string {
	if utf8.ValidString(s) && !strings.HasPrefix(s, hexMarker) {
		return s
	}
	return hexMarker + hex.EncodeToString([]byte(s))
}

func decStr(s string) string {
	if !strings.HasPrefix(s, hexMarker) {
		return s
	}
	b, err := hex.DecodeString(s[len(hexMarker):])
	if err != nil {
		return s
	}
	return string(b)
}

// mapStrings returns a deep copy of v with f applied to every string
// (exported struct fields, slices, arrays, pointers, interfaces, map values).
func mapStrings(v reflect.Value, f func(string) string) reflect.Value {
	switch v.Kind() {
	case reflect.String:
		out := reflect.New(v.Type()).Elem()
		out.SetString(f(v.String()))
		return out
	case reflect.Ptr:
		if v.IsNil() {
			return v
		}
		out := reflect.New(v.Type().Elem())
		out.Elem().Set(mapStrings(v.Elem(), f))
		return out
	case reflect.Interface:
		if v.IsNil() {
			return v
		}
		out := reflect.New(v.Type()).Elem()
		out.Set(mapStrings(v.Elem(), f))
		return out
	case reflect.Struct:
		out := reflect.New(v.Type()).Elem()
		out.Set(v)
		for i := 0; i < v.NumField(); i++ {
			if v.Type().Field(i).PkgPath != "" {
				continue // unexported
			}
			out.Field(i).Set(mapStrings(v.Field(i), f))
		}
		return out
	case reflect.Slice:
		if v.IsNil() || v.Type().Elem().Kind() == reflect.Uint8 {
			return v
		}
		out := reflect.MakeSlice(v.Type(), v.Len(), v.Len())
		for i := 0; i < v.Len(); i++ {
			out.Index(i).Set(mapStrings(v.Index(i), f))
		}
		return out
	case reflect.Array:
		out := reflect.New(v.Type()).Elem()
		for i := 0; i < v.Len(); i++ {
			out.Index(i).Set(mapStrings(v.Index(i), f))
		}
		return out
	case reflect.Map:
		if v.IsNil() {
			return v
		}
		out := reflect.MakeMapWithSize(v.Type(), v.Len())
		it := v.MapRange()
		for it.Next() {
			out.SetMapIndex(it.Key(), mapStrings(it.Value(), f))
		}
		return out
	}
	return v
}

// EncodeCase is json.Marshal that keeps every string byte-exact.
func EncodeCase(c any) ([]byte, error) {
	return json.Marshal(mapStrings(reflect.ValueOf(c), encStr).Interface())
}

// DecodeCase is the inverse of EncodeCase; into must be a pointer.
func DecodeCase(raw []byte, into any) error {
	if err := json.Unmarshal(raw, into); err != nil {
		return err
	}
	p := reflect.ValueOf(into)
	if p.Kind() == reflect.Ptr && !p.IsNil() {
		p.Elem().Set(mapStrings(p.Elem(), decStr))
	}
	return nil
}
