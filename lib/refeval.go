package lib

import (
	"bytes"
	"encoding/json"
	"errors"
	"fmt"
	"math"
	"regexp"
	"strconv"
	"strings"
)

// Reference evaluator: the documented semantics of the query language written
// down independently of kvql (DESIGN.md §2.3). Values:
//
//	Text   string (a byte sequence)      Int   int64      Float float64
//	Bool   bool                           List  []any       JSON  map / []any / string / float64 / bool / nil
//
// ErrDomain is returned for inputs whose meaning the documentation does not
// fix (division by zero, int() of non-numeric text, overflow, …): generators
// treat such cases as outside the property's domain, never as a verdict.

var ErrDomain = errors.New("outside documented domain")

func domain(format string, args ...any) error {
	return fmt.Errorf("%w: %s", ErrDomain, fmt.Sprintf(format, args...))
}

// ErrMagnitude marks the domain errors that are about size: an integer or
// float result (or operand) so large that the engine's int64/float64
// arithmetic wraps around or rounds. The language does not define that.
var ErrMagnitude = errors.New("magnitude beyond exact arithmetic")

func magnitude(format string, args ...any) error {
	return fmt.Errorf("%w: %w: %s", ErrDomain, ErrMagnitude, fmt.Sprintf(format, args...))
}

const intBound = int64(1) << 40 // keep all arithmetic far from overflow / float inexactness

type Env struct {
	K, V string
	Defs map[string]*Node
	// Aggr supplies the value of aggregate calls when evaluating the
	// arithmetic around them (keyed by node pointer).
	Aggr map[*Node]any
}

var intRe = regexp.MustCompile(`^-?[0-9]{1,19}$`) // ParseInt refuses what does not fit
var floatRe = regexp.MustCompile(`^-?[0-9]{1,12}(\.[0-9]{1,9})?$`)

// ReadInt is the documented "decimal reading" of a text as integer.
func ReadInt(s string) (int64, bool) {
	if !intRe.MatchString(s) {
		return 0, false
	}
	v, err := strconv.ParseInt(s, 10, 64)
	return v, err == nil
}

func ReadFloat(s string) (float64, bool) {
	if !floatRe.MatchString(s) {
		return 0, false
	}
	v, err := strconv.ParseFloat(s, 64)
	return v, err == nil
}

func isASCII(s string) bool {
	for i := 0; i < len(s); i++ {
		if s[i] >= 0x80 {
			return false
		}
	}
	return true
}

func asciiUpper(s string) string {
	b := []byte(s)
	for i, c := range b {
		if c >= 'a' && c <= 'z' {
			b[i] = c - 32
		}
	}
	return string(b)
}

func asciiLower(s string) string {
	b := []byte(s)
	for i, c := range b {
		if c >= 'A' && c <= 'Z' {
			b[i] = c + 32
		}
	}
	return string(b)
}

func checkInt(v int64) (int64, error) {
	if v > intBound || v < -intBound {
		return 0, magnitude("integer magnitude beyond 2^40")
	}
	return v, nil
}

func checkFloat(v float64) (float64, error) {
	if math.IsNaN(v) || math.IsInf(v, 0) || math.Abs(v) > float64(intBound) {
		return 0, magnitude("float magnitude")
	}
	return v, nil
}

func numAsFloat(v any) (float64, bool) {
	switch x := v.(type) {
	case int64:
		if x > 1<<53 || x < -(1<<53) {
			return 0, false // not exactly a float: no reference value
		}
		return float64(x), true
	case float64:
		return x, true
	}
	return 0, false
}

// cmpNum compares two numbers numerically (int/int exactly).
func cmpNum(a, b any) (int, error) {
	ai, aok := a.(int64)
	bi, bok := b.(int64)
	if aok && bok {
		switch {
		case ai < bi:
			return -1, nil
		case ai > bi:
			return 1, nil
		}
		return 0, nil
	}
	af, ok1 := numAsFloat(a)
	bf, ok2 := numAsFloat(b)
	if !ok1 || !ok2 {
		return 0, domain("numeric comparison of %T and %T", a, b)
	}
	switch {
	case af < bf:
		return -1, nil
	case af > bf:
		return 1, nil
	}
	return 0, nil
}

// cmpVals compares two values of the same class (text / number / bool).
func cmpVals(a, b any) (int, error) {
	switch x := a.(type) {
	case string:
		y, ok := b.(string)
		if !ok {
			return 0, domain("text compared with %T", b)
		}
		return bytes.Compare([]byte(x), []byte(y)), nil
	case int64, float64:
		return cmpNum(a, b)
	case bool:
		y, ok := b.(bool)
		if !ok {
			return 0, domain("bool compared with %T", b)
		}
		switch {
		case x == y:
			return 0, nil
		case !x:
			return -1, nil
		}
		return 1, nil
	}
	return 0, domain("comparison of %T", a)
}

func arith(op string, a, b any) (any, error) {
	ai, aok := a.(int64)
	bi, bok := b.(int64)
	if aok && bok {
		if _, err := checkInt(ai); err != nil {
			return nil, err
		}
		if _, err := checkInt(bi); err != nil {
			return nil, err
		}
		switch op {
		case "+":
			return checkInt(ai + bi)
		case "-":
			return checkInt(ai - bi)
		case "*":
			if ai != 0 && bi != 0 && (abs64(ai) > intBound/abs64(bi)) {
				return nil, magnitude("integer overflow")
			}
			return checkInt(ai * bi)
		case "/":
			if bi == 0 {
				return nil, domain("division by zero")
			}
			return ai / bi, nil // assumption A-div: integer stays integer (C04)
		}
	}
	af, ok1 := numAsFloat(a)
	bf, ok2 := numAsFloat(b)
	if !ok1 || !ok2 {
		return nil, domain("arithmetic on %T and %T", a, b)
	}
	switch op {
	case "+":
		return checkFloat(af + bf)
	case "-":
		return checkFloat(af - bf)
	case "*":
		return checkFloat(af * bf)
	case "/":
		if bf == 0 {
			return nil, domain("division by zero")
		}
		return checkFloat(af / bf)
	}
	return nil, domain("unknown arithmetic operator %s", op)
}

func abs64(x int64) int64 {
	if x < 0 {
		return -x
	}
	return x
}

// textOf gives the text form used where the documentation says "convert
// value into string": text as is, integers in decimal. Floats are not
// specified (the engine uses %f) and are outside the domain.
func textOf(v any) (string, error) {
	switch x := v.(type) {
	case string:
		return x, nil
	case int64:
		return strconv.FormatInt(x, 10), nil
	}
	return "", domain("text form of %T", v)
}

func Eval(n *Node, env *Env) (any, error) {
	switch n.K {
	case "key":
		return env.K, nil
	case "value":
		return env.V, nil
	case "str":
		return n.S, nil
	case "int":
		return n.I, nil
	case "float":
		return n.F, nil
	case "bool":
		return n.I != 0, nil
	case "paren":
		return Eval(n.A[0], env)
	case "ref":
		d, ok := env.Defs[n.S]
		if !ok {
			return nil, fmt.Errorf("harness bug: unknown alias %s", n.S)
		}
		return Eval(d, env)
	case "not":
		v, err := Eval(n.A[0], env)
		if err != nil {
			return nil, err
		}
		b, ok := v.(bool)
		if !ok {
			return nil, domain("! of %T", v)
		}
		return !b, nil
	case "bin":
		return evalBin(n, env)
	case "in":
		x, err := Eval(n.A[0], env)
		if err != nil {
			return nil, err
		}
		found := false
		for _, it := range n.A[1:] {
			y, err := Eval(it, env)
			if err != nil {
				return nil, err
			}
			c, err := cmpVals(x, y)
			if err != nil {
				return nil, err
			}
			if c == 0 {
				found = true
			}
		}
		return found, nil
	case "inlist":
		x, err := Eval(n.A[0], env)
		if err != nil {
			return nil, err
		}
		lv, err := Eval(n.A[1], env)
		if err != nil {
			return nil, err
		}
		l, ok := lv.([]any)
		if !ok {
			return nil, domain("in over %T", lv)
		}
		found := false
		for _, y := range l {
			c, err := cmpVals(x, y)
			if err != nil {
				return nil, err
			}
			if c == 0 {
				found = true
			}
		}
		return found, nil
	case "between":
		x, err := Eval(n.A[0], env)
		if err != nil {
			return nil, err
		}
		lo, err := Eval(n.A[1], env)
		if err != nil {
			return nil, err
		}
		hi, err := Eval(n.A[2], env)
		if err != nil {
			return nil, err
		}
		c, err := cmpVals(lo, hi)
		if err != nil {
			return nil, err
		}
		if c >= 0 {
			return nil, domain("between with lower >= upper")
		}
		c1, err := cmpVals(lo, x)
		if err != nil {
			return nil, err
		}
		c2, err := cmpVals(x, hi)
		if err != nil {
			return nil, err
		}
		return c1 <= 0 && c2 <= 0, nil
	case "index":
		v, err := Eval(n.A[0], env)
		if err != nil {
			return nil, err
		}
		l, ok := v.([]any)
		if !ok {
			return nil, domain("index into %T", v)
		}
		if n.I < 0 || int(n.I) >= len(l) {
			return nil, domain("index out of range")
		}
		return l[n.I], nil
	case "field":
		v, err := Eval(n.A[0], env)
		if err != nil {
			return nil, err
		}
		m, ok := v.(map[string]any)
		if !ok {
			return nil, domain("field access into %T", v)
		}
		f, have := m[n.S]
		if !have {
			return nil, domain("missing member")
		}
		return f, nil
	case "call":
		return evalCall(n, env)
	}
	return nil, fmt.Errorf("harness bug: unknown node kind %q", n.K)
}

func evalBin(n *Node, env *Env) (any, error) {
	l, err := Eval(n.A[0], env)
	if err != nil {
		return nil, err
	}
	r, err := Eval(n.A[1], env)
	if err != nil {
		return nil, err
	}
	switch n.S {
	case "&", "and", "|", "or":
		lb, ok1 := l.(bool)
		rb, ok2 := r.(bool)
		if !ok1 || !ok2 {
			return nil, domain("logical operator on %T, %T", l, r)
		}
		if n.S == "&" || n.S == "and" {
			return lb && rb, nil
		}
		return lb || rb, nil
	case "=", "!=", "<", "<=", ">", ">=":
		c, err := cmpVals(l, r)
		if err != nil {
			return nil, err
		}
		switch n.S {
		case "=":
			return c == 0, nil
		case "!=":
			return c != 0, nil
		case "<":
			return c < 0, nil
		case "<=":
			return c <= 0, nil
		case ">":
			return c > 0, nil
		}
		return c >= 0, nil
	case "^=":
		ls, ok1 := l.(string)
		rs, ok2 := r.(string)
		if !ok1 || !ok2 {
			return nil, domain("^= on %T, %T", l, r)
		}
		return strings.HasPrefix(ls, rs), nil
	case "~=":
		ls, ok1 := l.(string)
		rs, ok2 := r.(string)
		if !ok1 || !ok2 {
			return nil, domain("~= on %T, %T", l, r)
		}
		re, err := regexp.Compile(rs)
		if err != nil {
			return nil, domain("invalid regular expression")
		}
		return re.MatchString(ls), nil
	case "+":
		if ls, ok := l.(string); ok {
			rs, ok := r.(string)
			if !ok {
				return nil, domain("text + %T", r)
			}
			return ls + rs, nil
		}
		return arith("+", l, r)
	case "-", "*", "/":
		return arith(n.S, l, r)
	}
	return nil, fmt.Errorf("harness bug: unknown operator %q", n.S)
}

func evalArgs(n *Node, env *Env) ([]any, error) {
	ret := make([]any, len(n.A))
	for i, a := range n.A {
		v, err := Eval(a, env)
		if err != nil {
			return nil, err
		}
		ret[i] = v
	}
	return ret, nil
}

func toFloatVec(v any) ([]float64, error) {
	l, ok := v.([]any)
	if !ok {
		return nil, domain("vector from %T", v)
	}
	ret := make([]float64, len(l))
	for i, e := range l {
		switch x := e.(type) {
		case int64:
			ret[i] = float64(x)
		case float64:
			ret[i] = x
		case string:
			f, ok := ReadFloat(x)
			if !ok {
				return nil, domain("vector element %q", x)
			}
			ret[i] = f
		default:
			return nil, domain("vector element %T", e)
		}
	}
	return ret, nil
}

// ErrMustFail marks expressions whose documented behaviour is "refuses":
// the engine must return an error value (not a number, not a panic).
var ErrMustFail = errors.New("documented to be refused")

func evalCall(n *Node, env *Env) (any, error) {
	if AggrNames[n.S] {
		if env.Aggr != nil {
			if v, ok := env.Aggr[n]; ok {
				return v, nil
			}
		}
		return nil, fmt.Errorf("harness bug: aggregate %s outside aggregate context", n.S)
	}
	args, err := evalArgs(n, env)
	if err != nil {
		return nil, err
	}
	text := func(i int) (string, error) {
		s, ok := args[i].(string)
		if !ok {
			return "", domain("%s argument %d is %T", n.S, i, args[i])
		}
		return s, nil
	}
	switch n.S {
	case "upper", "lower":
		s, err := text(0)
		if err != nil {
			return nil, err
		}
		if !isASCII(s) {
			return nil, domain("case mapping of non-ASCII text")
		}
		if n.S == "upper" {
			return asciiUpper(s), nil
		}
		return asciiLower(s), nil
	case "int":
		switch x := args[0].(type) {
		case int64:
			return x, nil
		case string:
			v, ok := ReadInt(x)
			if !ok {
				return nil, domain("int(%q)", x)
			}
			return v, nil
		}
		return nil, domain("int(%T)", args[0])
	case "float":
		switch x := args[0].(type) {
		case float64:
			return x, nil
		case int64:
			f, ok := numAsFloat(x)
			if !ok {
				return nil, domain("float(%d) is not exact", x)
			}
			return f, nil
		case string:
			v, ok := ReadFloat(x)
			if !ok {
				return nil, domain("float(%q)", x)
			}
			return v, nil
		}
		return nil, domain("float(%T)", args[0])
	case "str":
		return textOf(args[0])
	case "strlen":
		s, err := textOf(args[0])
		if err != nil {
			return nil, err
		}
		return int64(len(s)), nil
	case "is_int":
		switch x := args[0].(type) {
		case int64:
			return true, nil
		case string:
			return clearCutInt(x)
		}
		return nil, domain("is_int(%T)", args[0])
	case "is_float":
		switch x := args[0].(type) {
		case float64:
			return true, nil
		case string:
			return clearCutFloat(x)
		}
		return nil, domain("is_float(%T)", args[0])
	case "substr":
		// README: substring of value from `start` position to `end` position
		// (spec.md: substr(value, 2, 3) is one character) = value[start:end)
		s, err := text(0)
		if err != nil {
			return nil, err
		}
		a, ok1 := args[1].(int64)
		b, ok2 := args[2].(int64)
		if !ok1 || !ok2 || a < 0 || b < a {
			return nil, domain("substr positions")
		}
		if b > int64(len(s)) {
			b = int64(len(s))
		}
		if a >= b {
			return "", nil
		}
		return s[a:b], nil
	case "split":
		s, err := text(0)
		if err != nil {
			return nil, err
		}
		sep, err := text(1)
		if err != nil {
			return nil, err
		}
		if sep == "" {
			return nil, domain("split with empty separator")
		}
		parts := strings.Split(s, sep)
		ret := make([]any, len(parts))
		for i, p := range parts {
			ret[i] = p
		}
		return ret, nil
	case "join":
		sep, err := text(0)
		if err != nil {
			return nil, err
		}
		parts := make([]string, 0, len(args)-1)
		for _, a := range args[1:] {
			s, err := textOf(a)
			if err != nil {
				return nil, err
			}
			parts = append(parts, s)
		}
		return strings.Join(parts, sep), nil
	case "len":
		l, ok := args[0].([]any)
		if !ok {
			return nil, domain("len(%T)", args[0])
		}
		return int64(len(l)), nil
	case "list", "int_list", "ilist", "float_list", "flist":
		ret := make([]any, len(args))
		for i, a := range args {
			switch n.T {
			case TyListInt:
				v, ok := a.(int64)
				if !ok {
					return nil, domain("%s element %T", n.S, a)
				}
				ret[i] = v
			case TyListFloat:
				switch x := a.(type) {
				case float64:
					ret[i] = x
				case int64:
					if n.S == "list" {
						return nil, domain("list with mixed element kinds")
					}
					ret[i] = float64(x)
				default:
					return nil, domain("%s element %T", n.S, a)
				}
			case TyListText:
				v, ok := a.(string)
				if !ok {
					return nil, domain("%s element %T", n.S, a)
				}
				ret[i] = v
			}
		}
		return ret, nil
	case "l2_distance", "cosine_distance":
		a, err := toFloatVec(args[0])
		if err != nil {
			return nil, err
		}
		b, err := toFloatVec(args[1])
		if err != nil {
			return nil, err
		}
		if len(a) != len(b) {
			return nil, ErrMustFail
		}
		if n.S == "l2_distance" {
			var t float64
			for i := range a {
				d := a[i] - b[i]
				t += d * d
			}
			return math.Sqrt(t), nil
		}
		var ab, aa, bb float64
		for i := range a {
			ab += a[i] * b[i]
			aa += a[i] * a[i]
			bb += b[i] * b[i]
		}
		if aa == 0 || bb == 0 {
			return nil, domain("cosine distance of a zero vector")
		}
		return 1 - ab/(math.Sqrt(aa)*math.Sqrt(bb)), nil
	case "json":
		s, err := text(0)
		if err != nil {
			return nil, err
		}
		var m map[string]any
		if err := json.Unmarshal([]byte(s), &m); err != nil || m == nil {
			return nil, domain("json() of text that is not a JSON object")
		}
		return m, nil
	}
	return nil, domain("function %s has no reference semantics", n.S)
}

var clearIntRe = regexp.MustCompile(`^-?[0-9]{1,15}$`)
var clearFloatRe = regexp.MustCompile(`^-?[0-9]{1,12}\.[0-9]{1,6}$`)
var clearNotNumRe = regexp.MustCompile(`^[a-zA-Z_ ,:]*$`)

// clearCutInt decides is_int for texts on which every reasonable reading of
// "can be converted into integer" agrees; others are outside the domain.
func clearCutInt(s string) (bool, error) {
	switch {
	case clearIntRe.MatchString(s):
		return true, nil
	case clearFloatRe.MatchString(s):
		return false, nil
	case clearNotNumRe.MatchString(s) && !looksSpecial(s):
		return false, nil
	}
	return false, domain("is_int(%q) not clear-cut", s)
}

func clearCutFloat(s string) (bool, error) {
	switch {
	case clearIntRe.MatchString(s), clearFloatRe.MatchString(s):
		return true, nil
	case clearNotNumRe.MatchString(s) && !looksSpecial(s):
		return false, nil
	}
	return false, domain("is_float(%q) not clear-cut", s)
}

// looksSpecial: spellings Go's ParseFloat accepts although they are words.
func looksSpecial(s string) bool {
	l := strings.ToLower(strings.TrimSpace(s))
	l = strings.TrimLeft(l, "+-")
	switch l {
	case "inf", "infinity", "nan":
		return true
	}
	return false
}

// EvalBool evaluates a predicate on a pair.
func EvalBool(n *Node, k, v string, defs map[string]*Node) (bool, error) {
	r, err := Eval(n, &Env{K: k, V: v, Defs: defs})
	if err != nil {
		return false, err
	}
	b, ok := r.(bool)
	if !ok {
		return false, fmt.Errorf("harness bug: predicate evaluated to %T", r)
	}
	return b, nil
}
