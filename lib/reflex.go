package lib

import (
	"strconv"
	"strings"
	"unicode"
	"unicode/utf8"
)

// Reference tokeniser, written from the README's token description: words
// (keywords, names, numbers) separated by spaces or punctuation, quoted
// literals delimited by ' " or ` with no escape syntax, one- and
// two-character operators with maximal munch. Kinds use the engine's type
// names so that sequences can be compared directly.

type RefTok struct {
	Kind string // SELECT WHERE KEY VALUE OP STR ( ) [ ] NAME SEP NUM FLOAT LIMIT ORDER BY ASC DESC true false AS GROUP PUT REMOVE SEMI DELETE
	Data string
	Pos  int
	// Quoted tells that the token came from a quoted literal (STR or `NAME`).
	Quoted bool
	// Closed is false for a literal whose closing quote is missing.
	Closed bool
}

var refKeywords = map[string]string{
	"select": "SELECT", "where": "WHERE", "key": "KEY", "value": "VALUE",
	"limit": "LIMIT", "order": "ORDER", "by": "BY", "asc": "ASC", "desc": "DESC",
	"true": "true", "false": "false", "as": "AS", "group": "GROUP",
	"in": "OP", "between": "OP", "and": "OP", "or": "OP",
	"put": "PUT", "remove": "REMOVE", "delete": "DELETE",
}

func isWordByte(c byte) bool {
	switch c {
	case ' ', '\t', '\n', '\r', '\'', '"', '`', '~', '^', '=', '!', '*', '+', '-', '/', '>', '<',
		'&', '|', '(', ')', '[', ']', ',', ';':
		return false
	}
	return true
}

// FoldWord is the case folding of a bare word: letters to lower case, bytes
// that are not valid UTF-8 unchanged (the token must carry the text that
// stands in the query).
func FoldWord(w string) string {
	var sb strings.Builder
	for i := 0; i < len(w); {
		r, size := utf8.DecodeRuneInString(w[i:])
		if r == utf8.RuneError && size == 1 {
			sb.WriteByte(w[i])
		} else {
			sb.WriteRune(unicode.ToLower(r))
		}
		i += size
	}
	return sb.String()
}

func ClassifyWord(w string) string {
	l := FoldWord(w)
	if k, ok := refKeywords[l]; ok {
		return k
	}
	if _, err := strconv.ParseInt(l, 10, 64); err == nil {
		return "NUM"
	}
	if _, err := strconv.ParseFloat(l, 64); err == nil {
		return "FLOAT"
	}
	return "NAME"
}

// RefLex tokenises q. ok=false when q contains a character sequence whose
// treatment the documentation does not fix (a bare ^ or ~ that is not part of
// ^= / ~=): such inputs are only subject to the token-truth invariants.
func RefLex(q string) (toks []RefTok, ok bool) {
	ok = true
	for _, r := range q {
		if unicode.IsSpace(r) && r != ' ' && r != '\t' && r != '\n' && r != '\r' {
			// blanks other than space, tab and line end (vertical tab, form
			// feed, NBSP, U+2000..): not described
			ok = false
			break
		}
	}
	i := 0
	n := len(q)
	for i < n {
		c := q[i]
		switch {
		case c == ' ' || c == '\t' || c == '\n' || c == '\r':
			i++ // blanks: space, tab, line end
		case c == '\'' || c == '"' || c == '`':
			kind := "STR"
			if c == '`' {
				kind = "NAME"
			}
			j := strings.IndexByte(q[i+1:], c)
			if j < 0 {
				toks = append(toks, RefTok{Kind: kind, Data: q[i+1:], Pos: i, Quoted: true, Closed: false})
				i = n
			} else {
				toks = append(toks, RefTok{Kind: kind, Data: q[i+1 : i+1+j], Pos: i, Quoted: true, Closed: true})
				i = i + 1 + j + 1
			}
		case (c == '!' || c == '^' || c == '~' || c == '<' || c == '>') && i+1 < n && q[i+1] == '=':
			toks = append(toks, RefTok{Kind: "OP", Data: q[i : i+2], Pos: i})
			i += 2
		case c == '^' || c == '~':
			ok = false
			i++
		case c == '!' || c == '*' || c == '+' || c == '-' || c == '/' || c == '>' || c == '<' || c == '=' || c == '&' || c == '|':
			toks = append(toks, RefTok{Kind: "OP", Data: string(c), Pos: i})
			i++
		case c == '(' || c == ')' || c == '[' || c == ']':
			toks = append(toks, RefTok{Kind: string(c), Data: string(c), Pos: i})
			i++
		case c == ',':
			toks = append(toks, RefTok{Kind: "SEP", Data: ",", Pos: i})
			i++
		case c == ';':
			toks = append(toks, RefTok{Kind: "SEMI", Data: ";", Pos: i})
			i++
		default:
			j := i
			for j < n && isWordByte(q[j]) {
				j++
			}
			w := q[i:j]
			toks = append(toks, RefTok{Kind: ClassifyWord(w), Data: FoldWord(w), Pos: i})
			i = j
		}
	}
	return toks, ok
}
