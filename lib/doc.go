package lib

import (
	_ "github.com/c4pt0r/kvql"
	_ "pgregory.net/rapid"
)
