#!/usr/bin/env python3
"""Re-confirm every seeded change against the CURRENT /repo HEAD: the patch
applies, the suite passes with it, the demonstration fails with it and passes
without it, and the checks that caught it before still catch it (generated
search only). Uses tools/evalmut.py on a scratch worktree.

  tools/recheck_seeded.py [name-substring ...]
"""
import glob, json, os, shutil, subprocess, sys

ROOT = os.path.dirname(os.path.dirname(os.path.abspath(__file__)))
WT = "/tmp/recheck_wt"
ENV = dict(os.environ, GOFLAGS="-mod=mod", GOPROXY="off", GOSUMDB="off", GOTOOLCHAIN="local")


def sh(cmd, cwd="/"):
    p = subprocess.run(cmd, cwd=cwd, env=ENV, shell=True, stdout=subprocess.PIPE, stderr=subprocess.STDOUT, text=True, errors="replace")
    return p.returncode, p.stdout


def main():
    want = sys.argv[1:]
    bad = []
    for d in sorted(glob.glob(os.path.join(ROOT, "seeded", "agent-*"))):
        name = os.path.basename(d)
        if want and not any(w in name for w in want):
            continue
        meta = json.load(open(os.path.join(d, "meta.json")))
        if meta.get("thorough_only"):
            print(name, "skipped (caught by the thorough tier only):", list(meta["thorough_only"]))
            continue
        if meta.get("obsolete"):
            print(name, "skipped (obsolete):", meta["obsolete"][:80])
            continue
        props = list(meta.get("checks", {}).keys()) or [meta["breaks_property"]]
        sh("git -C /repo worktree remove --force %s" % WT)
        rc, out = sh("git -C /repo worktree add -q -f --detach %s HEAD && git -C %s apply %s" % (WT, WT, os.path.join(d, "patch.diff")))
        if rc != 0:
            print(name, "PATCH DOES NOT APPLY:", out[-200:])
            bad.append(name)
            continue
        for f in glob.glob(os.path.join(d, "zz_demo*_test.go.txt")):
            shutil.copy(f, os.path.join(WT, os.path.basename(f)[:-4]))
        rc, out = sh("python3 tools/evalmut.py %s %s %s --props %s" % (name, WT, meta["breaks_property"], ",".join(props)), ROOT)
        last = out.strip().splitlines()[-1] if out.strip() else ""
        print(name, last, flush=True)
        if rc != 0 or "caught by: []" in last:
            bad.append(name)
    sh("git -C /repo worktree remove --force %s" % WT)
    print("NOT CONFIRMED:", bad)
    return 1 if bad else 0


if __name__ == "__main__":
    sys.exit(main())
