#!/usr/bin/env python3
"""Confirm a seeded change and run the checks against it.

  tools/evalmut.py <name> <worktree> <property> [--tier quick] [--props C01,C02,...]

<worktree> is a scratch git worktree of /repo holding an uncommitted library change
and a demonstration test file zz_demo*_test.go. Steps:
  1. the change compiles and the pinned suite passes with it (demo file moved aside);
  2. the demonstration fails with the change and passes without it;
  3. the named checks are run against the worktree (VERIF_REPO) without the saved
     replays (VERIF_NO_REPLAY), so detection is by generated search alone;
  4. /verif/seeded/<name>/{patch.diff, demo, meta.json} are written.
Nothing in /repo is touched.
"""
import glob, json, os, shutil, subprocess, sys, time

ENV = dict(os.environ, GOFLAGS="-mod=mod", GOPROXY="off", GOSUMDB="off", GOTOOLCHAIN="local")
ROOT = os.path.dirname(os.path.dirname(os.path.abspath(__file__)))


def sh(cmd, cwd, env=ENV, timeout=3600):
    p = subprocess.run(cmd, cwd=cwd, env=env, shell=True, stdout=subprocess.PIPE, stderr=subprocess.STDOUT, text=True, errors="replace", timeout=timeout)
    return p.returncode, p.stdout


def main():
    name, wt, prop = sys.argv[1], os.path.abspath(sys.argv[2]), sys.argv[3]
    tier = "quick"
    props = [prop]
    args = sys.argv[4:]
    while args:
        a = args.pop(0)
        if a == "--tier":
            tier = args.pop(0)
        elif a == "--props":
            props = args.pop(0).split(",")
    demos = sorted(glob.glob(os.path.join(wt, "zz_demo*_test.go")))
    if not demos:
        print("no demonstration file zz_demo*_test.go in", wt)
        return 2
    side = wt + ".demo"
    os.makedirs(side, exist_ok=True)
    meta = {"name": name, "breaks_property": prop, "ran": []}
    # patch = tracked changes only
    rc, patch = sh("git diff", wt)
    if not patch.strip():
        print("no library change in", wt)
        return 2
    # 1. suite with the change, demo aside
    for d in demos:
        shutil.move(d, side)
    rc, out = sh("go build ./... && go test -vet=off -count=1 ./...", wt)
    meta["suite_with_change"] = "pass" if rc == 0 else "FAIL"
    meta["ran"].append("go build ./... && go test -vet=off -count=1 ./...   (with the change, demo aside) -> " + meta["suite_with_change"])
    for d in demos:
        shutil.move(os.path.join(side, os.path.basename(d)), wt)
    if rc != 0:
        print("suite fails with the change:\n", out[-2000:])
        return 1
    # 2. demo with / without
    rc_with, out_with = sh("go test -vet=off -count=1 .", wt)
    # (no git stash: refs/stash is shared by all worktrees of a repository)
    pf = os.path.join(side, "lib.patch")
    open(pf, "w").write(patch)
    sh("git apply -R %s" % pf, wt)
    rc_wo, out_wo = sh("go test -vet=off -count=1 .", wt)
    sh("git apply %s" % pf, wt)
    meta["demo_with_change"] = "fails" if rc_with != 0 else "PASSES"
    meta["demo_without_change"] = "passes" if rc_wo == 0 else "FAILS"
    meta["ran"].append("go test -vet=off -count=1 .  with the change -> demo " + meta["demo_with_change"] + "; with the change reverted (git apply -R) -> " + meta["demo_without_change"])
    if rc_with == 0 or rc_wo != 0:
        print("demonstration does not discriminate: with=%s without=%s" % (rc_with, rc_wo))
        print(out_with[-1500:])
        print(out_wo[-1500:])
        return 1
    # 3. checks against the worktree
    for d in demos:
        shutil.move(d, side)  # the demo file must not be part of the package the checks build against
    results = {}
    try:
        for p in props:
            e = dict(os.environ, VERIF_REPO=wt, VERIF_NO_REPLAY="1", VERIF_SEED=os.environ.get("VERIF_SEED", "1"))
            t0 = time.time()
            rc, out = sh("python3 run.py %s %s" % (p, tier), ROOT, env=e)
            viol = [l for l in out.splitlines() if l.startswith("VIOLATION")]
            first = ""
            for l in out.splitlines():
                if l.startswith("  ") and not first:
                    first = l.strip()[:300]
            results[p] = {"exit": rc, "violations": len(viol), "seconds": round(time.time() - t0, 1), "first_message": first}
            print(p, results[p])
            # found-* replays written during this experiment are not regression material
            for f in glob.glob(os.path.join(ROOT, "replays", p, "found-*.json")):
                keep = os.path.join(ROOT, "seeded", name)
                os.makedirs(keep, exist_ok=True)
                if not os.path.exists(os.path.join(keep, "caught-by-%s.json" % p)):
                    shutil.copy(f, os.path.join(keep, "caught-by-%s.json" % p))
                os.remove(f)
    finally:
        for d in demos:
            shutil.move(os.path.join(side, os.path.basename(d)), wt)
        shutil.rmtree(side, ignore_errors=True)
        subprocess.run("git checkout -- evidence", cwd=ROOT, shell=True)
    meta["checks"] = results
    meta["ran"].append("VERIF_REPO=<worktree> VERIF_NO_REPLAY=1 python3 run.py <ID> %s  for %s" % (tier, ",".join(props)))
    out_dir = os.path.join(ROOT, "seeded", name)
    os.makedirs(out_dir, exist_ok=True)
    open(os.path.join(out_dir, "patch.diff"), "w").write(patch)
    for d in demos:
        shutil.copy(d, os.path.join(out_dir, os.path.basename(d) + ".txt"))
    mp = os.path.join(out_dir, "meta.json")
    old = {}
    if os.path.exists(mp):
        old = json.load(open(mp))
    old.update(meta)
    json.dump(old, open(mp, "w"), indent=1)
    print("caught by:", [p for p, r in results.items() if r["exit"] == 1])
    return 0


if __name__ == "__main__":
    sys.exit(main())
