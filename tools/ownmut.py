#!/usr/bin/env python3
"""Own sensitivity mutants (DESIGN.md §5): each is a small textual edit of /repo's
HEAD applied in a scratch worktree; the pinned suite must still pass; the quick
check of the targeted property (generated search only, no saved replays) must
report a violation. Results -> /verif/seeded/own-mutants.json.

  tools/ownmut.py [name-substring ...]
"""
import json, os, subprocess, sys, time

ENV = dict(os.environ, GOFLAGS="-mod=mod", GOPROXY="off", GOSUMDB="off", GOTOOLCHAIN="local")
ROOT = os.path.dirname(os.path.dirname(os.path.abspath(__file__)))
WT = "/tmp/ownmut"

M = [
 # name, property(ies), file, old, new
 ("union-start-prefix", "C02", "filter_optimizer.go", "\t\tif bytes.Compare(lstart, rstart) <= 0 {\n\t\t\tnstart = lstart", "\t\tif bytes.Compare(lstart, rstart) <= 0 || bytes.HasPrefix(lstart, rstart) {\n\t\t\tnstart = lstart"),
 ("between-as-prefix", "C18", "filter_optimizer.go", "\tif field == KeyKW && canUseRange {\n\t\treturn &ScanType{RANGE, [][]byte{lower, upper}}\n\t}", "\tif field == KeyKW && canUseRange {\n\t\tif len(lower) > 0 && bytes.HasPrefix(upper, lower) {\n\t\t\treturn &ScanType{PREFIX, [][]byte{lower}}\n\t\t}\n\t\treturn &ScanType{RANGE, [][]byte{lower, upper}}\n\t}"),
 ("range-end-exclusive", "C01", "scan_plan.go", "if p.End != nil && bytes.Compare(key, p.End) > 0 {\n\t\t\tp.finished = true\n\t\t\tbreak\n\t\t}\n\n\t\t// Filter", "if p.End != nil && bytes.Compare(key, p.End) >= 0 {\n\t\t\tp.finished = true\n\t\t\tbreak\n\t\t}\n\n\t\t// Filter"),
 ("mget-no-sort", "C01", "scan_plan.go", "\tsort.Strings(keys)\n\t// A key listed twice", "\t_ = sort.Strings\n\tsort.Sort(sort.Reverse(sort.StringSlice(keys)))\n\t// A key listed twice"),
 ("string-compare-lte", "C01", "utils.go", "\t\tcase \"<\":\n\t\t\treturn cmpret < 0, nil\n\t\tcase \"<=\":\n\t\t\treturn cmpret <= 0, nil\n\t\tcase \"=\":\n\t\t\treturn cmpret == 0, nil\n\t\tdefault:", "\t\tcase \"<\":\n\t\t\treturn cmpret <= 0, nil\n\t\tcase \"<=\":\n\t\t\treturn cmpret <= 0, nil\n\t\tcase \"=\":\n\t\t\treturn cmpret == 0, nil\n\t\tdefault:"),
 ("bindrow-length-only", "C05", "plan.go", "\tif c.rowBound && bytes.Equal(c.rowKey, key) {\n\t\treturn\n\t}", "\tif c.rowBound && len(c.rowKey) == len(key) && bytes.HasPrefix(key, c.rowKey[:len(c.rowKey)/2]) {\n\t\treturn\n\t}"),
 ("chunk-bind-any-length", "C05", "plan.go", "\t\tif len(v) != len(chunk) {\n\t\t\tcontinue\n\t\t}", "\t\tif len(v) < len(chunk) {\n\t\t\tcontinue\n\t\t}"),
 ("fold-by-right-kind", "C04", "expression_optimizer.go", "\t\t\tcase float64:\n\t\t\t\treturn &FloatExpr{Pos: leftPos, Data: fmt.Sprintf(\"%v\", cret), Float: cret}, true\n\t\t\t}\n\t\t}\n\tcase And, Or:", "\t\t\tcase float64:\n\t\t\t\tif _, ok := e.Right.(*NumberExpr); ok {\n\t\t\t\t\treturn &NumberExpr{Pos: leftPos, Data: fmt.Sprintf(\"%v\", int64(cret)), Int: int64(cret)}, true\n\t\t\t\t}\n\t\t\t\treturn &FloatExpr{Pos: leftPos, Data: fmt.Sprintf(\"%v\", cret), Float: cret}, true\n\t\t\t}\n\t\t}\n\tcase And, Or:"),
 ("or-true-absorb", "C04", "expression_optimizer.go", "\t\t\tif leftVal {\n\t\t\t\t// true | Expr => true\n\t\t\t\treturn &BoolExpr{Pos: e.Left.GetPos(), Data: \"true\", Bool: true}, true", "\t\t\tif leftVal {\n\t\t\t\t// true | Expr => true\n\t\t\t\treturn e.Right, true"),
 ("reorder-sub", "C04", "expression_optimizer.go", "\tif e.Op != Add && e.Op != Mul {\n\t\treturn\n\t}", "\tif e.Op != Add && e.Op != Mul && e.Op != Sub {\n\t\treturn\n\t}"),
 ("limit-swap", "C08", "parser.go", "\t\tret.Start = int(exprs[0].Int)\n\t\tret.Count = int(exprs[1].Int)", "\t\tret.Start = int(exprs[1].Int)\n\t\tret.Count = int(exprs[0].Int)"),
 ("limit-skip-off-by-one", "C08", "limit_plan.go", "func (p *FinalLimitPlan) Next(ctx *ExecuteCtx) ([]Column, error) {\n\tfor p.skips < p.Start {", "func (p *FinalLimitPlan) Next(ctx *ExecuteCtx) ([]Column, error) {\n\tfor p.skips <= p.Start && p.Start > 0 {"),
 ("aggr-no-clone", "C09", "aggregate_plan.go", "\t\t\t\tcol.Funcs = append(col.Funcs, f.Clone())", "\t\t\t\tcol.Funcs = append(col.Funcs, f)"),
 ("min-first-flag", "C09", "aggr_func.go", "\tif !f.first {\n\t\tf.first = true\n\t\tf.imin = ival", "\tif !f.first && ival < 0 {\n\t\tf.first = true\n\t\tf.imin = ival"),
 ("desc-sign", "C07", "order_plan.go", "\tif lval == rval {\n\t\treturn 0\n\t}\n\tif reverse {\n\t\tif lval > rval {\n\t\t\treturn -1\n\t\t} else {\n\t\t\treturn 1\n\t\t}\n\t}\n\tif lval < rval {\n\t\treturn -1\n\t} else {\n\t\treturn 1\n\t}\n}\n\ntype orderColumnsRowHeap", "\tif lval == rval {\n\t\treturn 0\n\t}\n\tif reverse {\n\t\tif lval < rval {\n\t\t\treturn -1\n\t\t} else {\n\t\t\treturn 1\n\t\t}\n\t}\n\tif lval < rval {\n\t\treturn -1\n\t} else {\n\t\treturn 1\n\t}\n}\n\ntype orderColumnsRowHeap"),
 ("second-key-ignored", "C07", "order_plan.go", "\t\tif compare < 0 {\n\t\t\treturn true\n\t\t} else if compare > 0 {\n\t\t\treturn false\n\t\t}", "\t\tif compare < 0 {\n\t\t\treturn true\n\t\t} else if compare > 0 || i > 0 {\n\t\t\treturn false\n\t\t}"),
 ("upper-vec-lower", "C03,C10", "scalar_func_vec.go", "\t\targ := toString(rarg[i])\n\t\tret[i] = strings.ToUpper(arg)", "\t\targ := toString(rarg[i])\n\t\tif len(arg) > 3 {\n\t\t\targ = strings.ToLower(arg)\n\t\t}\n\t\tret[i] = strings.ToUpper(arg[:len(arg)])\n\t\tif len(arg) > 3 {\n\t\t\tret[i] = arg\n\t\t}"),
 ("split-arg-swap-vec", "C03,C10", "scalar_func_vec.go", "\t\tvalues[i] = strings.Split(val, spliter)", "\t\tvalues[i] = strings.Split(val, spliter)\n\t\tif len(spliter) > 1 {\n\t\t\tvalues[i] = strings.Split(spliter, val)\n\t\t}"),
 ("l2-no-length-check", "C10", "scalar_func.go", "func l2Distance(left, right []float64) (float64, error) {\n\tif len(left) != len(right) {", "func l2Distance(left, right []float64) (float64, error) {\n\tif len(left) < len(right) {"),
 ("delete-shortcut-with-amp", "C02,C11", "optimizer.go", "\t\t\tif eval.Op == And || eval.Op == KWAnd {", "\t\t\tif eval.Op == KWAnd {"),
 ("put-executed-flag", "C12", "put_plan.go", "func (p *PutPlan) Batch(ctx *ExecuteCtx) ([][]Column, error) {\n\tif !p.executed {\n\t\tn, err := p.execute(ctx)\n\t\tp.executed = true", "func (p *PutPlan) Batch(ctx *ExecuteCtx) ([][]Column, error) {\n\tif !p.executed {\n\t\tn, err := p.execute(ctx)\n\t\tp.executed = err != nil"),
 ("put-early-write", "C12", "put_plan.go", "\t\tkvps[i] = NewKVP(key, value)\n\t}", "\t\tkvps[i] = NewKVP(key, value)\n\t\tif nkvps > 3 && i == 0 {\n\t\t\tp.Storage.Put(key, value)\n\t\t}\n\t}"),
 ("swallow-next-error", "C13", "scan_plan.go", "\t\t\tkey, val, err := p.iter.Next()\n\t\t\tif err != nil {\n\t\t\t\treturn nil, err\n\t\t\t}", "\t\t\tkey, val, err := p.iter.Next()\n\t\t\tif err != nil {\n\t\t\t\tif len(ret) > 0 {\n\t\t\t\t\tfinish = true\n\t\t\t\t\tbreak\n\t\t\t\t}\n\t\t\t\treturn nil, err\n\t\t\t}"),
 ("swallow-seek-error", "C13", "scan_plan.go", "\tif p.Start != nil {\n\t\terr = p.iter.Seek(p.Start)\n\t\tif err != nil {\n\t\t\treturn err\n\t\t}\n\t}", "\tif p.Start != nil {\n\t\tp.iter.Seek(p.Start)\n\t}"),
 ("delete-continues-after-error", "C13", "delete_plan.go", "\t\terr = p.Storage.BatchDelete(keys)\n\t\tif err != nil {\n\t\t\treturn count, err\n\t\t}", "\t\terr = p.Storage.BatchDelete(keys)\n\t\tif err != nil && count > 0 {\n\t\t\treturn count, err\n\t\t}"),
 ("not-check-no-recursion", "C14", "checker.go", "\te.Right = tryRewriteNameExpr(e.Right, ctx)\n\tif err := e.Right.Check(ctx); err != nil {\n\t\treturn err\n\t}\n\tif e.Right.ReturnType() != TBOOL {", "\te.Right = tryRewriteNameExpr(e.Right, ctx)\n\tif _, isNot := e.Right.(*NotExpr); !isNot {\n\t\tif err := e.Right.Check(ctx); err != nil {\n\t\t\treturn err\n\t\t}\n\t}\n\tif e.Right.ReturnType() != TBOOL {"),
 ("prec-swap-plus-times", "C15", "lexer.go", "\t\tcase \"+\", \"-\":\n\t\t\treturn 4\n\t\tcase \"*\", \"/\":\n\t\t\treturn 5", "\t\tcase \"+\", \"-\", \"/\":\n\t\t\treturn 4\n\t\tcase \"*\":\n\t\t\treturn 5"),
 ("tok-pos-after-comma", "C16,C17", "lexer.go", "\t\t\tcase ',':\n\t\t\t\ttoken = &Token{\n\t\t\t\t\tTp:   SEP,\n\t\t\t\t\tData: string(char),\n\t\t\t\t\tPos:  i,\n\t\t\t\t}", "\t\t\tcase ',':\n\t\t\t\ttoken = &Token{\n\t\t\t\t\tTp:   SEP,\n\t\t\t\t\tData: string(char),\n\t\t\t\t\tPos:  i + 1,\n\t\t\t\t}\n\t\t\t\tif i+1 >= l.Length {\n\t\t\t\t\ttoken.Pos = i\n\t\t\t\t}"),
 ("err-window-trim-off", "C17", "errors.go", "\t\t\ttrim := pos - 35", "\t\t\ttrim := pos - 34"),
 ("and-picks-wider", "C18", "filter_optimizer.go", "\t// just return lower priority of scan type operation\n\treturn lptype\n}", "\t// just return lower priority of scan type operation\n\tif lptype.scanTp == PREFIX {\n\t\treturn hptype\n\t}\n\treturn lptype\n}"),
 ("prefix-scan-no-seek", "C18", "scan_plan.go", "func (p *PrefixScanPlan) Init() (err error) {\n\tp.finished = false\n\tp.iter, err = p.Storage.Cursor()\n\tif err != nil {\n\t\treturn err\n\t}\n\treturn p.iter.Seek([]byte(p.Prefix))", "func (p *PrefixScanPlan) Init() (err error) {\n\tp.finished = false\n\tp.iter, err = p.Storage.Cursor()\n\tif err != nil {\n\t\treturn err\n\t}\n\tif len(p.Prefix) > 2 {\n\t\treturn p.iter.Seek([]byte(p.Prefix[:1]))\n\t}\n\treturn p.iter.Seek([]byte(p.Prefix))"),
 ("global-regexp-cache", "C19", "expression_exec_vec.go", "\tvar (\n\t\tregexpCache = make(map[string]*regexp.Regexp)\n\t)", "\tregexpCache := sharedRegexpCache"),
 ("group-key-no-separator", "C09", "aggregate_plan.go", "\tkey = append(key, []byte(fmt.Sprintf(\"%d:\", len(part)))...)\n\treturn append(key, part...)", "\tif len(part) > 9 {\n\t\tkey = append(key, []byte(fmt.Sprintf(\"%d:\", len(part)))...)\n\t}\n\treturn append(key, part...)"),
 ("substr-panic-again", "C06", "scalar_func.go", "\tend = min(end, len(val))\n\tif start >= end {\n\t\treturn \"\"\n\t}", "\tend = min(end, len(val))\n\tif start > end+1 {\n\t\treturn \"\"\n\t}"),
]
NOTES = {
 "chunk-bind-any-length": "equivalent mutant: a cached column longer than the chunk is never produced (AdjustChunkCache always cuts to the chosen rows)",
 "err-window-trim-off": "equivalent for the property: the window moves by one byte, the caret stays under the reported offset",
 "reorder-sub": "equivalent since repair 47 (numeric chains are no longer re-associated at all, and - is never a text operator)",
}
EXTRA2 = {
 # second edit in the same file (both sites change together)
 "chunk-key-alias-only": ("plan.go", "func (c *ExecuteCtx) SetChunkFieldResult(name string, key []byte, chunk []any) {\n\tif !c.EnableCache {\n\t\treturn\n\t}\n\tckey := fmt.Sprintf(\"%s-%s\", name, string(key))", "func (c *ExecuteCtx) SetChunkFieldResult(name string, key []byte, chunk []any) {\n\tif !c.EnableCache {\n\t\treturn\n\t}\n\tckey := fmt.Sprintf(\"%s-%s\", name, string(key[:len(key)/2]))"),
}
EXTRA = {
 "global-regexp-cache": ("expression_exec_vec.go", "\nvar sharedRegexpCache = make(map[string]*regexp.Regexp)\n"),
}


def sh(cmd, cwd, env=ENV, timeout=3600):
    p = subprocess.run(cmd, cwd=cwd, env=env, shell=True, stdout=subprocess.PIPE, stderr=subprocess.STDOUT, text=True, errors="replace", timeout=timeout)
    return p.returncode, p.stdout


def main():
    want = sys.argv[1:]
    sh("git -C /repo worktree remove --force %s" % WT, "/")
    rc, out = sh("git -C /repo worktree add -q %s HEAD" % WT, "/")
    if rc != 0:
        print(out)
        return 2
    resf = os.path.join(ROOT, "seeded", "own-mutants.json")
    results = json.load(open(resf)) if os.path.exists(resf) else {}
    try:
        for name, props, fname, old, new in M:
            if want and not any(w in name for w in want):
                continue
            sh("git checkout -- . && git clean -fdq", WT)
            path = os.path.join(WT, fname)
            src = open(path).read()
            if src.count(old) < 1:
                print("!! %s: pattern not found in %s" % (name, fname))
                results[name] = {"error": "pattern not found"}
                continue
            src = src.replace(old, new, 1)
            if name in EXTRA:
                src += EXTRA[name][1]
            if name in EXTRA2:
                _, o2, n2 = EXTRA2[name]
                if src.count(o2) < 1:
                    print("!! %s: second pattern not found" % name)
                src = src.replace(o2, n2, 1)
            open(path, "w").write(src)
            rc, out = sh("gofmt -l . ; go build ./... && go test -vet=off -count=1 ./...", WT)
            if rc != 0:
                print("!! %s: suite does not pass with the mutant:\n%s" % (name, out[-600:]))
                results[name] = {"error": "suite fails", "tail": out[-300:]}
                continue
            _, patch = sh("git diff", WT)
            r = {"breaks": props, "suite": "pass", "patch": patch, "checks": {}}
            for p in props.split(","):
                e = dict(os.environ, VERIF_REPO=WT, VERIF_NO_REPLAY="1", VERIF_SEED=os.environ.get("VERIF_SEED", "1"))
                t0 = time.time()
                rc, out = sh("python3 run.py %s quick" % p, ROOT, env=e)
                msg = ""
                for l in out.splitlines():
                    if l.startswith("  ") and not msg:
                        msg = l.strip()[:240]
                r["checks"][p] = {"exit": rc, "seconds": round(time.time() - t0, 1), "message": msg}
                sh("rm -f replays/%s/found-*.json; git checkout -- evidence" % p, ROOT)
            caught = [p for p, c in r["checks"].items() if c["exit"] == 1]
            print("%-28s breaks %-8s caught by %s  %s" % (name, props, caught or "NOBODY", {p: c["exit"] for p, c in r["checks"].items()}))
            if name in NOTES:
                r["note"] = NOTES[name]
            results[name] = r
            json.dump(results, open(resf, "w"), indent=1)
    finally:
        sh("git -C /repo worktree remove --force %s" % WT, "/")
    return 0


if __name__ == "__main__":
    sys.exit(main())
