#!/usr/bin/env python3
"""For every seeded change (seeded/<name>/patch.diff) run ALL quick checks against a
scratch worktree with the patch applied (generated search only) and record which
checks report a violation: seeded/<name>/meta.json["cross"] and seeded/CROSS.md.

  tools/crossmut.py [name-substring ...]
"""
import glob, json, os, subprocess, sys, time

ENV = dict(os.environ, GOFLAGS="-mod=mod", GOPROXY="off", GOSUMDB="off", GOTOOLCHAIN="local")
ROOT = os.path.dirname(os.path.dirname(os.path.abspath(__file__)))
WT = "/tmp/crossmut"
ALL = ["C%02d" % i for i in range(1, 20)]


def sh(cmd, cwd, env=ENV, timeout=7200):
    p = subprocess.run(cmd, cwd=cwd, env=env, shell=True, stdout=subprocess.PIPE, stderr=subprocess.STDOUT, text=True, errors="replace", timeout=timeout)
    return p.returncode, p.stdout


def main():
    want = sys.argv[1:]
    names = sorted(os.path.basename(os.path.dirname(p)) for p in glob.glob(os.path.join(ROOT, "seeded", "*", "patch.diff")))
    for name in names:
        if want and not any(w in name for w in want):
            continue
        mp = os.path.join(ROOT, "seeded", name, "meta.json")
        meta = json.load(open(mp))
        if "cross" in meta and not want:
            continue
        if meta.get("obsolete"):
            continue
        sh("git -C /repo worktree remove --force %s" % WT, "/")
        rc, out = sh("git -C /repo worktree add -q %s HEAD && git -C %s apply %s" % (WT, WT, os.path.join(ROOT, "seeded", name, "patch.diff")), "/")
        if rc != 0:
            print(name, "patch does not apply:", out[-300:])
            continue
        cross = {}
        for p in ALL:
            e = dict(os.environ, VERIF_REPO=WT, VERIF_NO_REPLAY="1", VERIF_SEED="1")
            rc, out = sh("python3 run.py %s quick" % p, ROOT, env=e)
            cross[p] = rc
            sh("rm -f replays/%s/found-*.json" % p, ROOT)
        sh("git checkout -- evidence", ROOT)
        meta["cross"] = cross
        json.dump(meta, open(mp, "w"), indent=1)
        print(name, "caught by", [p for p, rc in cross.items() if rc == 1], "inconclusive", [p for p, rc in cross.items() if rc == 2], flush=True)
    sh("git -C /repo worktree remove --force %s" % WT, "/")
    # table
    rows = []
    for name in names:
        meta = json.load(open(os.path.join(ROOT, "seeded", name, "meta.json")))
        if "cross" not in meta:
            continue
        caught = [p for p, rc in meta["cross"].items() if rc == 1]
        rows.append("| %s | %s | %s | %s |" % (name, meta.get("breaks_property", "?"), ", ".join(caught) or "-", meta.get("detection_history", "")))
    open(os.path.join(ROOT, "seeded", "CROSS.md"), "w").write(
        "| seeded change | breaks | quick checks that report a violation (generated search only) | history |\n|---|---|---|---|\n" + "\n".join(rows) + "\n")


if __name__ == "__main__":
    sys.exit(main())
