#!/usr/bin/env python3
"""Regenerate DESIGN.md section 9 (sensitivity: which checks catch which seeded
changes) from seeded/*/meta.json and seeded/own-mutants.json.

The section is everything between the markers
  <!-- SENS:BEGIN -->  and  <!-- SENS:END -->
in DESIGN.md (appended at the end when the markers are missing).
"""
import glob, json, os, re

ROOT = os.path.dirname(os.path.dirname(os.path.abspath(__file__)))


def esc(s):
    return str(s).replace("|", "\\|").replace("\n", " ")


def main():
    rows = []
    first_run = {"caught": 0, "missed": 0}
    per_round = {}
    for mp in sorted(glob.glob(os.path.join(ROOT, "seeded", "agent-*", "meta.json"))):
        m = json.load(open(mp))
        name = m["name"]
        rnd = {"a": 1, "b": 2, "c": 3, "d": 4, "e": 5, "f": 6, "g": 7, "h": 8, "i": 9, "j": 10, "k": 11, "l": 12}.get(name[-1], 0)
        checks = m.get("checks", {})
        caught = [p for p, r in checks.items() if r.get("exit") == 1]
        caught += ["%s (thorough tier only)" % p for p in m.get("thorough_only", {})]
        hist = m.get("detection_history", "")
        if m.get("obsolete"):
            hist += " -- NOW OBSOLETE: " + m["obsolete"]
        missed_first = "missed" in hist.lower().split("caught")[0] if hist else False
        never = hist.startswith("NOT caught")
        pr = per_round.setdefault(rnd, {"n": 0, "first": 0, "never": 0})
        pr["n"] += 1
        if never:
            pr["never"] += 1
        elif not missed_first:
            pr["first"] += 1
        cross = m.get("cross")
        cross_txt = ""
        if cross:
            cross_txt = ", ".join(p for p, rc in sorted(cross.items()) if rc == 1)
        rows.append("| %s | %s | %s | %s | %s | %s |" % (
            name, m.get("breaks_property", "?"), esc(m.get("needs_to_manifest", "")),
            ", ".join(caught) or "-", esc(cross_txt) or "n/a", esc(hist)))
    out = []
    out.append("## 9. Sensitivity as measured: which checks catch which seeded changes\n")
    out.append("Every change below is kept under `seeded/<name>/` (patch.diff, the author's demonstration test, meta.json). "
               "Each compiles, passes the repository's 80 tests unedited, fails its demonstration with the change and passes it without "
               "(all re-confirmed by `tools/evalmut.py` before the change was kept). The checks were run against a scratch worktree with the "
               "patch applied (`VERIF_REPO=<worktree> VERIF_NO_REPLAY=1 python3 run.py <ID> quick`), i.e. by generated search only: the "
               "replay files of earlier findings were not consulted. \"first run\" in the history column means the state of the machinery "
               "before it had seen the change. The column of ALL alarming quick checks comes from tools/crossmut.py (every quick check against every change; rounds 1-4 "
               "with the checks as they stood before round 5, rounds 5-8 with the checks as they stood after round 8, round 9 with the checks as they stood after round 9; not computed for rounds 10 to 12, whose neighbours were tried by hand - fourth column); n/a marks those and the two changes that no "
               "longer apply.\n")
    out.append("Changes written by fresh sub-agents that were given only the property text and a scratch worktree (rounds 1-%d):\n" % max(per_round or {0: 0}))
    for rnd in sorted(per_round):
        pr = per_round[rnd]
        out.append("* round %d: %d changes, %d caught on the first run (by the quick check of the target property or, where the history column says so, of the property the mechanism belongs to), %d after strengthening%s." % (
            rnd, pr["n"], pr["first"], pr["n"] - pr["never"],
            (" (%d left undetected on purpose: what they need - a way of driving the library or an undocumented spelling - is outside the listed properties, see their history)" % pr["never"]) if pr["never"] else ""))
    out.append("")
    out.append("| change | property | needs, to manifest | caught now by (quick tier, target and neighbours that were tried) | all quick checks that alarm (tools/crossmut.py) | history |")
    out.append("|---|---|---|---|---|---|")
    out.extend(rows)
    out.append("")
    # own mutants
    op = os.path.join(ROOT, "seeded", "own-mutants.json")
    if os.path.exists(op):
        own = json.load(open(op))
        out.append("Own textual mutants (`tools/ownmut.py`, one-line edits of /repo chosen while reading the code; kept as a table only):\n")
        out.append("| mutant | target | outcome |")
        out.append("|---|---|---|")
        for name, r in sorted(own.items()):
            if "error" in r:
                out.append("| %s | %s | not a valid mutant (%s): not counted |" % (name, r.get("breaks", "?"), esc(r["error"])))
                continue
            checks = r.get("checks", {})
            caught = [p for p, c in checks.items() if c.get("exit") == 1]
            if caught:
                msg = next(c.get("message", "") for p, c in checks.items() if c.get("exit") == 1)
                out.append("| %s | %s | caught by %s: %s |" % (name, r.get("breaks", "?"), ", ".join(caught), esc(msg)[:150]))
            else:
                out.append("| %s | %s | not caught: %s |" % (name, r.get("breaks", "?"), esc(r.get("note", "see section 8.4 (equivalent mutant or outside the property)"))))
        out.append("")
    text = "\n".join(out)
    dp = os.path.join(ROOT, "DESIGN.md")
    d = open(dp).read()
    block = "<!-- SENS:BEGIN -->\n" + text + "\n<!-- SENS:END -->"
    if "<!-- SENS:BEGIN -->" in d:
        d = re.sub(r"<!-- SENS:BEGIN -->.*?<!-- SENS:END -->", lambda _: block, d, flags=re.S)
    else:
        d = d.rstrip("\n") + "\n\n" + block + "\n"
    open(dp, "w").write(d)
    print("section 9 written: %d seeded changes" % len(rows))


if __name__ == "__main__":
    main()
