package checks

import (
	"fmt"
	"runtime"
	"strings"
	"sync"
	"testing"

	"github.com/c4pt0r/kvql"
	"pgregory.net/rapid"

	"verif/lib"
)

// C19 — independent statements can run concurrently without races or
// interference. Built and run with -race by the driver.

type c19Case struct {
	Stmts   []*lib.Stmt `json:"stmts"`
	Queries []string    `json:"queries"`
	Pairs   []lib.Pair  `json:"pairs"`
	Modes   []string    `json:"modes"`
	Procs   int         `json:"procs"`
	Repeats int         `json:"repeats"`
	Batch   int         `json:"batch"`
	Writers []bool      `json:"writers"`
}

func init() { registerReplay("c19", func(c *c19Case) string { m, _, _ := checkC19(c); return m }) }

type c19Out struct {
	rows  string
	err   string
	store string
	plan  string // what the plan says about itself: explain lines, field names and types
}

// runQuiet plans and drains one statement without touching package globals.
func runQuiet(q string, st kvql.Storage, mode string, npairs int) (out c19Out) {
	defer func() {
		if p := recover(); p != nil {
			out.err = fmt.Sprintf("panic: %v", p)
		}
	}()
	plan, err := kvql.NewOptimizer(q).BuildPlan(st)
	if err != nil {
		out.err = "build: " + err.Error()
		return
	}
	out.plan = fmt.Sprint(plan.Explain(), plan.FieldNameList(), plan.FieldTypeList())
	ctx := kvql.NewExecuteCtx()
	var rows [][]any
	for polls := 0; polls < 4*npairs+len(q)+64; polls++ {
		if mode == "row" {
			cols, err := plan.Next(ctx)
			if err != nil {
				out.err = "exec: " + err.Error()
				break
			}
			if cols == nil {
				break
			}
			r := make([]any, len(cols))
			for i, c := range cols {
				r[i] = lib.Norm(c)
			}
			rows = append(rows, r)
		} else {
			batch, err := plan.Batch(ctx)
			if err != nil {
				out.err = "exec: " + err.Error()
				break
			}
			if len(batch) == 0 {
				break
			}
			for _, cols := range batch {
				r := make([]any, len(cols))
				for i, c := range cols {
					r[i] = lib.Norm(c)
				}
				rows = append(rows, r)
			}
		}
	}
	out.rows = lib.ShowRows(rows)
	return
}

func checkC19(c *c19Case) (msg string, nontrivial bool, labels []string) {
	if len(c.Queries) == 0 {
		for _, s := range c.Stmts {
			c.Queries = append(c.Queries, s.Render())
		}
	}
	lib.SetGlobals(lib.Cfg{Mode: "row", Batch: c.Batch, Cache: true})
	old := runtime.GOMAXPROCS(c.Procs)
	defer runtime.GOMAXPROCS(old)
	shared := lib.NewStore(c.Pairs)
	// the store all readers share hands out the same slices to every one of
	// them: a statement that writes into what it was handed writes into the
	// others' data (and into the storage)
	shared.Shared = true
	n := len(c.Queries)
	storeFor := func(i int) *lib.Store {
		if c.Writers[i] {
			return lib.NewStore(c.Pairs) // every writer works on a private copy
		}
		return shared
	}
	mutators := 0
	for _, s := range c.Stmts {
		if s == nil || s.IsAggregate() || len(s.Defs()) > 0 {
			mutators++ // (nil: a raw-text aggregate statement)
		}
	}
	nontrivial = n >= 2 && mutators >= 2
	// The concurrent rounds come FIRST: state that the library would set up
	// lazily on first use (a cache, a registry) is then touched for the first
	// time by several goroutines at once, not by the sequential reference run.
	all := make([][]c19Out, 0, c.Repeats)
	for rep := 0; rep < c.Repeats; rep++ {
		outs := make([]c19Out, n)
		var wg sync.WaitGroup
		start := make(chan struct{})
		for i := range c.Queries {
			wg.Add(1)
			go func(i int) {
				defer wg.Done()
				<-start
				st := storeFor(i)
				outs[i] = runQuiet(c.Queries[i], st, c.Modes[i], len(c.Pairs))
				if c.Writers[i] {
					outs[i].store = fmt.Sprint(st.Pairs())
				}
			}(i)
		}
		close(start)
		wg.Wait()
		all = append(all, outs)
	}
	// sequential reference results
	seq := make([]c19Out, n)
	for i, q := range c.Queries {
		st := storeFor(i)
		seq[i] = runQuiet(q, st, c.Modes[i], len(c.Pairs))
		if c.Writers[i] {
			seq[i].store = fmt.Sprint(st.Pairs())
		}
	}
	if m := shared.MemoryIntact(); m != "" {
		return fmt.Sprintf("after %d statements over one store (GOMAXPROCS %d): %s", n, c.Procs, m), nontrivial, labels
	}
	for rep, outs := range all {
		for i := range outs {
			if outs[i] != seq[i] {
				return fmt.Sprintf("statement %d %q run concurrently with %d others (GOMAXPROCS %d, round %d) gives\n  %+v\nalone it gives\n  %+v", i, c.Queries[i], n-1, c.Procs, rep, outs[i], seq[i]), nontrivial, labels
			}
		}
	}
	return "", nontrivial, labels
}

func TestC19(t *testing.T) {
	rapid.Check(t, func(rt *rapid.T) {
		kind := lib.GenKind(rt)
		pairs := lib.GenStore(rt, kind, rapid.SampledFrom([]int{3, 8, 20, 40}).Draw(rt, "n"))
		n := rapid.IntRange(2, 16).Draw(rt, "nstmts")
		c := &c19Case{Pairs: pairs, Procs: rapid.SampledFrom([]int{1, 2, 4, 16}).Draw(rt, "procs"),
			Repeats: rapid.IntRange(1, 4).Draw(rt, "repeats"), Batch: rapid.SampledFrom([]int{1, 3, 32}).Draw(rt, "batch")}
		for i := 0; i < n; i++ {
			var st *lib.Stmt
			switch rapid.IntRange(0, 10).Draw(rt, "kind") {
			case 8:
				// round 12: ORDER BY on a value of dynamic kind (a JSON member:
				// a number where the column is typed as text) - the comparator
				// renders such values, once per comparison and statement
				doc := rapid.SampledFrom([]string{"value", `'{"n": 5, "s": "x"}'`, `'{"n": 2.5}'`}).Draw(rt, "jsonDoc")
				member := rapid.SampledFrom([]string{"a", "n", "s"}).Draw(rt, "jsonMember")
				dir := rapid.SampledFrom([]string{"", " desc"}).Draw(rt, "jsonOrderDir")
				q := fmt.Sprintf("select key, json(%s)['%s'] as f1 where key >= '' order by f1%s, key", doc, member, dir)
				c.Stmts = append(c.Stmts, nil)
				c.Queries = append(c.Queries, q)
				c.Modes = append(c.Modes, rapid.SampledFrom([]string{"row", "batch"}).Draw(rt, "mode"))
				c.Writers = append(c.Writers, false)
				continue
			case 0:
				st = lib.GenPut(rt, kind, pairs, true)
			case 1:
				st = lib.GenDelete(rt, kind, pairs, true)
			case 2:
				st = lib.GenRemove(rt, kind, pairs, true)
			case 3, 4:
				st = lib.GenSelect(rt, kind, pairs, lib.SelOpts{Aggregate: 2, Exotic: true, Order: true, Limit: true})
			case 5:
				// the short form without a select part (`where P [order by ..] [limit ..]`)
				st = lib.GenSelect(rt, kind, pairs, lib.SelOpts{Order: true, Limit: true, Exotic: true})
				st.Star, st.Fields, st.NoSelKW = true, nil, true
				for i := range st.Order {
					st.Order[i].Name = rapid.SampledFrom([]string{"key", "value"}).Draw(rt, "shortFormOrder")
				}
			case 6:
				// the constant parameter of quantile / group_concat given
				// through the names of other fields: evaluated when the plan is
				// built, for every statement on its own
				var q string
				if rapid.Bool().Draw(rt, "namedSeparator") {
					sep := rapid.SampledFrom([]string{"-", "+", "/", ";", "::", ""}).Draw(rt, "separator")
					q = fmt.Sprintf("select '%s' as s0, s0 + '' as s1, s1 + '' as s2, group_concat(key, s2) where key >= '' group by s0, s1, s2", sep)
				} else {
					pc := rapid.SampledFrom([]string{"0.1", "0.25", "0.5", "0.75", "0.9", "1.0"}).Draw(rt, "percent")
					q = fmt.Sprintf("select %s as s0, s0 * 1.0 as s1, s1 + 0.0 as s2, quantile(strlen(key), s2) where key >= '' group by s0, s1, s2", pc)
				}
				c.Stmts = append(c.Stmts, nil)
				c.Queries = append(c.Queries, q)
				c.Modes = append(c.Modes, rapid.SampledFrom([]string{"row", "batch"}).Draw(rt, "mode"))
				c.Writers = append(c.Writers, false)
				continue
			case 7:
				// names the process has not printed before (a name nobody
				// defines stands for its own text), in the plan's description of
				// itself and in the message of a refusal
				nm := func(l string) string {
					n := rapid.StringMatching(`[a-z]{6}`).Draw(rt, l)
					if rapid.IntRange(0, 2).Draw(rt, l+"Quoted") == 0 {
						return "`" + strings.ToUpper(n[:1]) + " " + n[1:] + "`"
					}
					return "q" + n
				}
				q := fmt.Sprintf("select key, upper(%s), %s where key >= '' & str(%s) != 'q'", nm("n1"), nm("n2"), nm("n3"))
				if rapid.IntRange(0, 2).Draw(rt, "refused") == 0 {
					q = fmt.Sprintf("select key where %s & key >= ''", nm("n4"))
				}
				c.Stmts = append(c.Stmts, nil)
				c.Queries = append(c.Queries, q)
				c.Modes = append(c.Modes, rapid.SampledFrom([]string{"row", "batch"}).Draw(rt, "mode"))
				c.Writers = append(c.Writers, false)
				continue
			default:
				st = lib.GenSelect(rt, kind, pairs, lib.SelOpts{Aliases: true, Aggregate: 1, Order: true, Limit: true, Exotic: true})
			}
			if i > 0 && c.Stmts[i-1] != nil && rapid.IntRange(0, 3).Draw(rt, "sameAsPrevious") == 0 {
				st = c.Stmts[i-1].Clone() // the same statement text on two goroutines
			}
			// value-keyed state (e.g. a cache of compiled patterns) is only
			// exercised by values the process has not seen before
			tag := rapid.StringMatching(`[a-z]{8}`).Draw(rt, "tag")
			uniq := func(n *lib.Node) {
				if n == nil {
					return
				}
				n.Walk(func(x *lib.Node) {
					if x.K == "bin" && x.S == "~=" && x.A[1].K == "str" {
						x.A[1].S = "(?:" + x.A[1].S + ")|zq" + tag
					}
				})
			}
			uniq(st.Where)
			for _, f := range st.Fields {
				uniq(f.E)
			}
			c.Stmts = append(c.Stmts, st)
			c.Queries = append(c.Queries, st.Render())
			c.Modes = append(c.Modes, rapid.SampledFrom([]string{"row", "batch"}).Draw(rt, "mode"))
			c.Writers = append(c.Writers, st.Kind != "select")
		}
		lib.Journal("C19", "c19", c)
		msg, nt, labels := checkC19(c)
		labels = append(labels, fmt.Sprintf("procs=%d", c.Procs), fmt.Sprintf("goroutines~%d", (n/4)*4))
		lib.Stats.Case(nt, fmt.Sprint(c.Queries, c.Modes, c.Procs, pairs), labels, func() any {
			return map[string]any{"goroutines": n, "gomaxprocs": c.Procs, "repeats": c.Repeats, "queries": c.Queries}
		})
		if msg != "" {
			fail(rt, "C19", "c19", msg, c)
		}
	})
}
