package checks

import (
	"fmt"
	"strings"
	"testing"

	"pgregory.net/rapid"

	"verif/lib"
)

// C05 — aliases are pure abbreviations and the field cache is invisible.

type c05Case struct {
	Stmt  *lib.Stmt  `json:"stmt"`
	Pairs []lib.Pair `json:"pairs"`
	Batch int        `json:"batch"`
	Query string     `json:"query"`
}

func init() { registerReplay("c05", func(c *c05Case) string { m, _, _ := checkC05(c); return m }) }

// expandStmt replaces every use of a name inside an expression by its
// definition; the select list keeps its names (ORDER BY / GROUP BY refer to
// select fields by name).
func expandStmt(s *lib.Stmt) *lib.Stmt {
	defs := s.Defs()
	e := s.Clone()
	for i := range e.Fields {
		e.Fields[i].E = lib.ExpandRefs(s.Fields[i].E, defs)
	}
	e.Where = lib.ExpandRefs(s.Where, defs)
	return e
}

func usesRef(n *lib.Node) bool { return n.Has(func(x *lib.Node) bool { return x.K == "ref" }) }

// orderKeyIdx maps ORDER BY names to column indexes.
func orderKeyIdx(s *lib.Stmt) []int {
	var idx []int
	for _, o := range s.Order {
		for i, f := range s.Fields {
			name := f.Alias
			if name == "" && (f.E.K == "key" || f.E.K == "value") {
				name = f.E.K
			}
			if name == o.Name {
				idx = append(idx, i)
				break
			}
		}
		if s.Star {
			if o.Name == "key" {
				idx = append(idx, 0)
			} else if o.Name == "value" {
				idx = append(idx, 1)
			}
		}
	}
	return idx
}

// sameUpToTies: equal as sequences of order-key tuples and equal as multisets
// (rows that tie under ORDER BY may come in any order).
func sameUpToTies(a, b [][]any, keyIdx []int) bool {
	if len(keyIdx) == 0 {
		return lib.EqualRows(a, b)
	}
	if len(a) != len(b) {
		return false
	}
	for i := range a {
		for _, k := range keyIdx {
			if k >= len(a[i]) || k >= len(b[i]) || !lib.EqualVal(a[i][k], b[i][k]) {
				return false
			}
		}
	}
	return lib.SameMultiset(a, b)
}

func checkC05(c *c05Case) (msg string, nontrivial bool, labels []string) {
	q := c.Stmt.Render()
	c.Query = q
	ref, err := lib.RefSelect(c.Stmt, c.Pairs)
	if err != nil {
		return "", false, []string{"skipped-not-evaluable"}
	}
	want := make([][]any, len(ref))
	for i, r := range ref {
		want[i] = r.Cols
	}
	exp := expandStmt(c.Stmt)
	eq := exp.Render()
	keyIdx := orderKeyIdx(c.Stmt)
	aggregate := c.Stmt.IsAggregate()
	groupCol := map[int]bool{}
	if aggregate {
		for i, f := range c.Stmt.Fields {
			if !f.E.HasAggr() {
				groupCol[i] = true
			}
		}
	}

	// non-trivial: a name is used in WHERE and a rejected pair precedes an accepted one
	if usesRef(c.Stmt.Where) {
		labels = append(labels, "alias-in-where")
		defs := c.Stmt.Defs()
		seenRejected := false
		for _, p := range lib.NewStore(c.Pairs).Pairs() {
			ok, _ := lib.EvalBool(c.Stmt.Where, p.K, p.V, defs)
			if !ok {
				seenRejected = true
			} else if seenRejected {
				nontrivial = true
			}
		}
	}
	for _, f := range c.Stmt.Fields {
		if usesRef(f.E) {
			labels = append(labels, "alias-in-field")
			break
		}
	}

	var first [][]any
	var firstCfg lib.Cfg
	for _, mode := range []string{"row", "batch"} {
		// (round 11: the last two configurations switch the cache after the
		// execute context has been created)
		for ci, cache := range []bool{true, false, true, false} {
			cfg := lib.Cfg{Mode: mode, Batch: c.Batch, Cache: cache, StaleCtx: ci >= 2}
			res := lib.Run(q, lib.NewStore(c.Pairs), len(c.Pairs), cfg)
			if res.BuildErr != nil {
				return "", false, append(labels, "rejected-by-engine")
			}
			if res.Failed() {
				return fmt.Sprintf("query %q over %v [%s]: %s", q, c.Pairs, cfg, res.Describe()), nontrivial, labels
			}
			if mode == "row" && cache {
				labels = append(labels, scanLabel(res.Plan))
				if !c.Stmt.Star && len(res.Names) != len(c.Stmt.Fields) {
					return fmt.Sprintf("query %q announces %d field names %v for %d select fields", q, len(res.Names), res.Names, len(c.Stmt.Fields)), nontrivial, labels
				}
				for i, f := range c.Stmt.Fields {
					if f.Alias != "" && res.Names[i] != f.Alias {
						return fmt.Sprintf("query %q announces field %d as %q, not as its name %q", q, i, res.Names[i], f.Alias), nontrivial, labels
					}
				}
			}
			// every row has exactly one column per announced field
			for ri, r := range res.Rows {
				if len(r) != len(res.Names) {
					return fmt.Sprintf("query %q [%s]: row %d has %d columns for %d announced fields %v", q, cfg, ri, len(r), len(res.Names), res.Names), nontrivial, labels
				}
			}
			// (b) reference: each column is the value of its field's expression
			okRef := len(res.Rows) == len(want)
			if okRef {
				if len(keyIdx) > 0 {
					okRef = sameMultisetRef(want, res.Rows, groupCol)
				} else {
					for i := range want {
						for j := range want[i] {
							if j >= len(res.Rows[i]) || !lib.EqualRefVal(want[i][j], res.Rows[i][j], groupCol[j]) {
								okRef = false
							}
						}
					}
				}
			}
			if !okRef {
				return fmt.Sprintf("query %q over %v [%s]:\n  reference %s\n  engine    %s", q, c.Pairs, cfg, showRefRows(want), lib.ShowRows(res.Rows)), nontrivial, labels
			}
			// (c) cache on/off and row/batch give identical rows
			if first == nil {
				first, firstCfg = res.Rows, cfg
			} else if !sameUpToTies(first, res.Rows, keyIdx) {
				return fmt.Sprintf("query %q over %v: rows differ between [%s] and [%s]:\n  %s\n  %s", q, c.Pairs, firstCfg, cfg, lib.ShowRows(first), lib.ShowRows(res.Rows)), nontrivial, labels
			}
			// (a) expansion: same rows as the query with every name replaced by its definition
			if eq != q {
				eres := lib.Run(eq, lib.NewStore(c.Pairs), len(c.Pairs), cfg)
				if eres.BuildErr != nil {
					labels = append(labels, "expansion-rejected")
					continue
				}
				if eres.Failed() {
					labels = append(labels, "expansion-failed")
					continue
				}
				if !sameUpToTies(eres.Rows, res.Rows, keyIdx) {
					return fmt.Sprintf("over %v [%s] the query with names\n  %q gives %s\nbut with every name replaced by its definition\n  %q gives %s", c.Pairs, cfg, q, lib.ShowRows(res.Rows), eq, lib.ShowRows(eres.Rows)), nontrivial, labels
				}
			}
		}
	}
	return "", nontrivial, labels
}

func showRefRows(rows [][]any) string {
	out := make([][]any, len(rows))
	for i, r := range rows {
		out[i] = make([]any, len(r))
		for j, v := range r {
			if ja, ok := v.(lib.JSONArrayText); ok {
				out[i][j] = fmt.Sprintf("json-array%v", ja.Items)
			} else {
				out[i][j] = v
			}
		}
	}
	return lib.ShowRows(out)
}

// sameMultisetRef: multiset equality of reference rows and engine rows under
// EqualRefVal (quadratic; result sets are small).
func sameMultisetRef(want, got [][]any, groupCol map[int]bool) bool {
	if len(want) != len(got) {
		return false
	}
	used := make([]bool, len(got))
	for _, w := range want {
		found := false
		for gi, g := range got {
			if used[gi] || len(g) != len(w) {
				continue
			}
			same := true
			for j := range w {
				if !lib.EqualRefVal(w[j], g[j], groupCol[j]) {
					same = false
					break
				}
			}
			if same {
				used[gi] = true
				found = true
				break
			}
		}
		if !found {
			return false
		}
	}
	return true
}

func TestC05(t *testing.T) {
	rapid.Check(t, func(rt *rapid.T) {
		kind := lib.GenKind(rt)
		bs := lib.GenBatchSize(rt)
		pairs := lib.GenStore(rt, kind, lib.GenStoreSize(rt))
		st := lib.GenSelect(rt, kind, pairs, lib.SelOpts{Aliases: true, Aggregate: 1, Order: true, MinFields: 1})
		c := &c05Case{Stmt: st, Pairs: pairs, Batch: bs}
		lib.Journal("C05", "c05", c)
		msg, nt, labels := checkC05(c)
		labels = append(labels, fmt.Sprintf("kind=%s", kind))
		if st.IsAggregate() {
			labels = append(labels, "aggregate")
		}
		if len(st.Order) > 0 {
			labels = append(labels, "ordered")
		}
		lib.Stats.Case(nt, c.Query+"|"+fmt.Sprint(pairs, bs), labels, func() any {
			return map[string]any{"query": c.Query, "pairs": len(pairs), "batch": bs}
		})
		if msg != "" {
			fail(rt, "C05", "c05", msg, c)
		}
	})
}

// TestC05NameKeyCollide: field names and stored keys built from fragments
// with the bytes a cache might use to join a name and a key ('-', ':', a
// length digit), so that different (name, key) pairs have equal joins.
func TestC05NameKeyCollide(t *testing.T) {
	rapid.Check(t, func(rt *rapid.T) {
		frag := func(name string) string {
			return rapid.SampledFrom([]string{"a", "k", "1", "a-k", "k-1", "1-1", "a:k", "3:a", "a-k-1", "k:1"}).Draw(rt, name)
		}
		n1 := frag("name1")
		n2 := frag("name2")
		if n1 == n2 {
			n2 = n2 + "-" + frag("name2b")
		}
		m := map[string]string{}
		for i := rapid.IntRange(2, 8).Draw(rt, "nkeys"); i > 0; i-- {
			k := frag("key")
			if rapid.Bool().Draw(rt, "joined") {
				k = k + "-" + frag("key2")
			}
			m[k] = fmt.Sprint(rapid.SampledFrom([]int{1, 2, 30, 300, 400, 5}).Draw(rt, "v"))
		}
		var pairs []lib.Pair
		for k, v := range m {
			pairs = append(pairs, lib.Pair{K: k, V: v})
		}
		pairs = lib.NewStore(pairs).Pairs()
		lim1 := int64(rapid.SampledFrom([]int{0, 2, 100}).Draw(rt, "lim1"))
		lim2 := int64(rapid.SampledFrom([]int{0, 20, 1000}).Draw(rt, "lim2"))
		st := &lib.Stmt{Kind: "select", Fields: []lib.SelField{
			{E: lib.Key()},
			{E: lib.Call("int", lib.Value()), Alias: n1},
			{E: lib.Bin("*", lib.Call("int", lib.Value()), lib.Int(10)), Alias: n2},
		}}
		w1 := lib.Bin(">", lib.Ref(n1, lib.TyInt), lib.Int(lim1))
		w2 := lib.Bin(">", lib.Ref(n2, lib.TyInt), lib.Int(lim2))
		if rapid.Bool().Draw(rt, "swap") {
			w1, w2 = w2, w1
		}
		st.Where = lib.Bin(rapid.SampledFrom([]string{"&", "|"}).Draw(rt, "op"), w1, w2)
		c := &c05Case{Stmt: st, Pairs: pairs, Batch: rapid.SampledFrom([]int{1, 2, 3}).Draw(rt, "batch")}
		lib.Journal("C05", "c05", c)
		msg, nt, labels := checkC05(c)
		lib.Stats.Case(nt, c.Query+"|"+fmt.Sprint(pairs, c.Batch), append(labels, "name-key-collide"), func() any {
			return map[string]any{"query": c.Query, "pairs": pairs, "batch": c.Batch}
		})
		if msg != "" {
			fail(rt, "C05", "c05", msg, c)
		}
	})
}

// ---- the cache over dynamically typed (JSON) fields --------------------------

type c05DynCase struct {
	Query string     `json:"query"`
	Pairs []lib.Pair `json:"pairs"`
	Batch int        `json:"batch"`
}

func init() {
	registerReplay("c05dyn", func(c *c05DynCase) string { m, _ := checkC05Dyn(c); return m })
}

// c05DynTemplates: named fields over JSON members whose kind changes from
// row to row, used in WHERE and in other fields. The reference evaluator has
// no semantics for these; the oracle is the property's second sentence:
// within one iteration mode the outcome with the cache on equals the outcome
// with the cache off (the same rows, or a failure both times).
var c05DynTemplates = []string{
	"select key, json(value)['m'] = json(value)['n'] as same where same & key ^= ''",
	"select key, json(value)['m'] = json(value)['n'] as same where same | key = 'zz'",
	"select key, json(value)['m'] != json(value)['n'] as ne where !ne",
	"select key, json(value)['m'] as j where j = 'x' | key = 'zz'",
	"select key, json(value)['m'] as j where j != 'q' & key ^= ''",
	"select key, json(value)['m'] as j, j + 'x' as w where j != 'q'",
	"select key, json(value)['m'] as j where j in ('x', '12')",
	"select key, json(value)['m'] as j, json(value)['n'] as k where j = k",
	"select key, json(value)['m'] as j, strlen(j) as l where l > 0",
	"select key, json(value)['m'] as j, j = 'x' as isx where isx | !isx",
}

func checkC05Dyn(c *c05DynCase) (msg string, nontrivial bool) {
	for _, mode := range []string{"row", "batch"} {
		on := lib.Run(c.Query, lib.NewStore(c.Pairs), len(c.Pairs), lib.Cfg{Mode: mode, Batch: c.Batch, Cache: true})
		off := lib.Run(c.Query, lib.NewStore(c.Pairs), len(c.Pairs), lib.Cfg{Mode: mode, Batch: c.Batch, Cache: false})
		if on.BuildErr != nil || off.BuildErr != nil {
			if (on.BuildErr == nil) != (off.BuildErr == nil) {
				return fmt.Sprintf("query %q builds with the cache %v only", c.Query, on.BuildErr == nil), true
			}
			return "", false
		}
		if on.Panic != "" || off.Panic != "" || on.StepCap || off.StepCap {
			return fmt.Sprintf("query %q over %v [%s, batch size %d]: cache on: %s; cache off: %s", c.Query, c.Pairs, mode, c.Batch, on.Describe(), off.Describe()), true
		}
		if (on.ExecErr == nil) != (off.ExecErr == nil) {
			return fmt.Sprintf("query %q over %v [%s, batch size %d]: switching the field cache changes the outcome:\n  cache on:  %s\n  cache off: %s", c.Query, c.Pairs, mode, c.Batch, on.Describe(), off.Describe()), true
		}
		if on.ExecErr == nil {
			if !lib.EqualRows(on.Rows, off.Rows) {
				return fmt.Sprintf("query %q over %v [%s, batch size %d]: switching the field cache changes the rows:\n  cache on:  %s\n  cache off: %s", c.Query, c.Pairs, mode, c.Batch, lib.ShowRows(on.Rows), lib.ShowRows(off.Rows)), true
			}
			if len(on.Rows) > 0 && len(on.Rows) < len(c.Pairs) {
				nontrivial = true
			}
		}
	}
	return "", nontrivial
}

// TestC05DynamicCache: JSON members of changing kind behind field names.
func TestC05DynamicCache(t *testing.T) {
	rapid.Check(t, func(rt *rapid.T) {
		batch := rapid.SampledFrom([]int{1, 2, 3, 32}).Draw(rt, "batch")
		// rows come in runs of one kind (often as long as a scan chunk, so
		// that every scanned chunk is of one kind and the chunk of accepted
		// rows is not); inside a run the values vary
		kinds := [][]string{{`1`, `2`}, {`2.5`, `3.5`}, {`"x"`, `"y"`}, {`"12"`, `"13"`}, {`true`, `false`}, {`null`}, {`[1, 2]`, `["a"]`}, {`{"k": 1}`}, {``}}
		var pairs []lib.Pair
		for len(pairs) < 8 {
			km := rapid.SampledFrom(kinds).Draw(rt, "kindM")
			kn := km
			if rapid.IntRange(0, 3).Draw(rt, "otherKind") == 0 {
				kn = rapid.SampledFrom(kinds).Draw(rt, "kindN")
			}
			run := rapid.SampledFrom([]int{1, batch, batch, 2}).Draw(rt, "run")
			if run > 4 {
				run = 4
			}
			for j := 0; j < run; j++ {
				m := rapid.SampledFrom(km).Draw(rt, "m")
				nn := m
				if rapid.Bool().Draw(rt, "differ") {
					nn = rapid.SampledFrom(kn).Draw(rt, "n")
				}
				parts := []string{}
				if m != "" {
					parts = append(parts, `"m": `+m)
				}
				if nn != "" {
					parts = append(parts, `"n": `+nn)
				}
				pairs = append(pairs, lib.Pair{K: fmt.Sprintf("k%02d", len(pairs)), V: "{" + strings.Join(parts, ", ") + "}"})
			}
		}
		c := &c05DynCase{Query: rapid.SampledFrom(c05DynTemplates).Draw(rt, "template"), Pairs: pairs, Batch: batch}
		lib.Journal("C05", "c05dyn", c)
		msg, nt := checkC05Dyn(c)
		lib.Stats.Case(nt, c.Query+"|"+fmt.Sprint(pairs, c.Batch), []string{"dynamic-json"}, func() any {
			return map[string]any{"query": c.Query, "pairs": pairs, "batch": c.Batch}
		})
		if msg != "" {
			fail(rt, "C05", "c05dyn", msg, c)
		}
	})
}
