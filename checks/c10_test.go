package checks

import (
	"errors"
	"fmt"
	"math"
	"strconv"
	"strings"
	"testing"

	"pgregory.net/rapid"

	"verif/lib"
)

// C10 — scalar functions and list/JSON indexing compute their documented
// values.

type c10Case struct {
	E     *lib.Node `json:"e"`
	K     string    `json:"k"`
	V     string    `json:"v"`
	Fn    string    `json:"fn"`   // function / construct under test (label)
	Form  string    `json:"form"` // const | row
	Query string    `json:"query"`
}

func init() { registerReplay("c10", func(c *c10Case) string { m, _, _ := checkC10(c); return m }) }

// litOf renders an expected value as a literal expression (ok=false when the
// language cannot write it).
func litOf(v any) (*lib.Node, bool) {
	switch x := v.(type) {
	case string:
		if _, ok := lib.Quote(x); !ok {
			return nil, false
		}
		return lib.Str(x), true
	case int64:
		if x < 0 {
			return lib.Bin("-", lib.Int(0), lib.Int(-x)), true
		}
		return lib.Int(x), true
	case float64:
		t := strconv.FormatFloat(x, 'f', -1, 64)
		if x < 0 || strings.ContainsAny(t, "e") || len(t) > 12 {
			return nil, false
		}
		if !strings.Contains(t, ".") {
			t += ".0"
		}
		if f, err := strconv.ParseFloat(t, 64); err != nil || f != x {
			return nil, false
		}
		return lib.Float(t), true
	}
	return nil, false
}

func isDistance(n *lib.Node) bool {
	return n.Has(func(x *lib.Node) bool {
		return x.K == "call" && (x.S == "l2_distance" || x.S == "cosine_distance")
	})
}

func checkC10(c *c10Case) (msg string, nontrivial bool, labels []string) {
	pairs := []lib.Pair{{K: c.K, V: c.V}}
	st := &lib.Stmt{Kind: "select", Fields: []lib.SelField{{E: c.E}}, Where: lib.Bin("=", lib.Int(1), lib.Int(1))}
	q := st.Render()
	c.Query = q
	want, err := lib.Eval(c.E, &lib.Env{K: c.K, V: c.V})
	mustFail := errors.Is(err, lib.ErrMustFail)
	if err != nil && !mustFail {
		return "", false, []string{"skipped-not-evaluable"}
	}
	nontrivial = true
	approx := isDistance(c.E)
	for _, mode := range []string{"row", "batch"} {
		cfg := lib.Cfg{Mode: mode, Batch: 2, Cache: true}
		res := lib.Run(q, lib.NewStore(pairs), 1, cfg)
		if res.Panic != "" || res.StepCap {
			return fmt.Sprintf("query %q over (%q,%q) [%s]: %s", q, c.K, c.V, cfg, res.Describe()), nontrivial, labels
		}
		if mustFail {
			if res.BuildErr == nil && res.ExecErr == nil {
				return fmt.Sprintf("query %q over (%q,%q) [%s] must be refused (vectors of different lengths) but returns %s", q, c.K, c.V, cfg, lib.ShowRows(res.Rows)), nontrivial, labels
			}
			continue
		}
		if res.Failed() {
			return fmt.Sprintf("query %q over (%q,%q) [%s]: documented value %s, engine: %s", q, c.K, c.V, cfg, lib.Show(want), res.Describe()), nontrivial, labels
		}
		if len(res.Rows) != 1 || len(res.Rows[0]) != 1 {
			return fmt.Sprintf("query %q over (%q,%q) [%s]: expected one row with one column, got %s", q, c.K, c.V, cfg, lib.ShowRows(res.Rows)), nontrivial, labels
		}
		got := res.Rows[0][0]
		ok := lib.EqualVal(want, got)
		if approx {
			ok = lib.ApproxEqualVal(want, got, 1e-12)
		}
		if !ok {
			return fmt.Sprintf("query %q over (%q,%q) [%s]: documented value %s, engine returns %s", q, c.K, c.V, cfg, lib.Show(want), lib.Show(got)), nontrivial, labels
		}
	}
	if mustFail {
		return "", nontrivial, append(labels, "must-fail")
	}
	if m, l := c10ChunkLeg(c, approx); m != "" {
		return m, nontrivial, labels
	} else if l != "" {
		labels = append(labels, l)
	}
	// WHERE leg: the value compared with its literal selects the pair
	var w *lib.Node
	switch x := want.(type) {
	case bool:
		w = c.E
		if c.E.K != "call" && c.E.K != "bin" && c.E.K != "in" && c.E.K != "inlist" && c.E.K != "between" && c.E.K != "not" {
			w = nil
		}
		if w != nil && !x {
			w = lib.Not(c.E)
		}
	default:
		if approx {
			break
		}
		if lit, ok := litOf(want); ok {
			e := c.E
			if c.E.K == "index" || c.E.K == "field" {
				// [..] is typed as text by the checker: compare through the
				// documented conversions
				switch want.(type) {
				case int64:
					e = lib.Call("int", c.E)
				case float64:
					e = lib.Call("float", c.E)
				}
			}
			w = lib.Bin("=", e, lit)
		}
	}
	if w != nil {
		ws := &lib.Stmt{Kind: "select", Star: true, Where: w}
		wq := ws.Render()
		for _, mode := range []string{"row", "batch"} {
			cfg := lib.Cfg{Mode: mode, Batch: 2, Cache: true}
			res := lib.Run(wq, lib.NewStore(pairs), 1, cfg)
			if res.BuildErr != nil {
				labels = append(labels, "where-leg-rejected")
				break
			}
			if res.Failed() {
				return fmt.Sprintf("query %q over (%q,%q) [%s]: %s (the select form returns %s)", wq, c.K, c.V, cfg, res.Describe(), lib.Show(want)), nontrivial, labels
			}
			if len(res.Rows) != 1 {
				return fmt.Sprintf("query %q over (%q,%q) [%s] should select the pair (documented value %s) but returns %s", wq, c.K, c.V, cfg, lib.Show(want), lib.ShowRows(res.Rows)), nontrivial, labels
			}
		}
		labels = append(labels, "where-leg")
	}
	return "", nontrivial, labels
}

// c10ChunkLeg: the pair among neighbours. The batch form of a function works
// on a whole chunk of pairs: the value it gives for one pair must not depend
// on the pairs around it, nor on whether the arguments are written out or
// reached through the names of other select fields. Neighbours are variations
// of the pair on which the reference defines the expression too.
func c10ChunkLeg(c *c10Case, approx bool) (msg, label string) {
	rot := c.V
	if len(rot) > 1 {
		rot = c.V[1:] + c.V[:1]
	}
	cand := []lib.Pair{{K: "!" + c.K, V: rot}, {K: c.K, V: c.V}, {K: c.K + "0", V: c.V + "1"}, {K: c.K + "1", V: c.V}}
	var pairs []lib.Pair
	var want []any
	for _, p := range lib.NewStore(cand).Pairs() { // in key order, as the scan returns them
		w, err := lib.Eval(c.E, &lib.Env{K: p.K, V: p.V})
		if err != nil {
			continue
		}
		pairs = append(pairs, p)
		want = append(want, w)
	}
	if len(pairs) < 2 {
		return "", ""
	}
	named := c.E.Clone()
	var subst func(n *lib.Node) *lib.Node
	subst = func(n *lib.Node) *lib.Node {
		switch n.K {
		case "key":
			return lib.Ref("k1", lib.TyText)
		case "value":
			return lib.Ref("v1", lib.TyText)
		}
		for i, a := range n.A {
			n.A[i] = subst(a)
		}
		return n
	}
	named = subst(named)
	where := lib.Bin("=", lib.Int(1), lib.Int(1))
	stmts := []*lib.Stmt{
		{Kind: "select", Fields: []lib.SelField{{E: c.E}}, Where: where},
		{Kind: "select", Fields: []lib.SelField{{E: lib.Value(), Alias: "v1"}, {E: lib.Key(), Alias: "k1"}, {E: named}}, Where: where},
	}
	for si, st := range stmts {
		q := st.Render()
		for _, cfg := range []lib.Cfg{{Mode: "batch", Batch: 32, Cache: true}, {Mode: "batch", Batch: 2, Cache: false}, {Mode: "row", Batch: 32, Cache: true}} {
			res := lib.Run(q, lib.NewStore(pairs), len(pairs), cfg)
			if res.Failed() {
				return fmt.Sprintf("query %q over %v [%s]: %s (the reference defines the value on every pair)", q, pairs, cfg, res.Describe()), ""
			}
			if len(res.Rows) != len(pairs) {
				return fmt.Sprintf("query %q over %v [%s]: expected %d rows, got %s", q, pairs, cfg, len(pairs), lib.ShowRows(res.Rows)), ""
			}
			for i, r := range res.Rows {
				got := r[len(r)-1]
				ok := lib.EqualVal(want[i], got)
				if approx {
					ok = lib.ApproxEqualVal(want[i], got, 1e-12)
				}
				if !ok {
					how := "written out"
					if si == 1 {
						how = "with key and value reached through names"
					}
					return fmt.Sprintf("query %q over %v [%s] (%s): row %d should be %s, engine returns %s", q, pairs, cfg, how, i, lib.Show(want[i]), lib.Show(got)), ""
				}
			}
		}
	}
	return "", fmt.Sprintf("chunk-of-%d", len(pairs))
}

func c10Run(t lib.Fataler, c *c10Case, enum bool) {
	lib.Journal("C10", "c10", c)
	msg, nt, labels := checkC10(c)
	labels = append(labels, "fn="+c.Fn, "form="+c.Form, "fn="+c.Fn+"/"+c.Form)
	sample := func() any { return map[string]any{"query": c.Query, "key": c.K, "value": c.V} }
	if enum {
		lib.Stats.EnumCase(nt, labels, sample)
	} else {
		lib.Stats.Case(nt, c.Query+"|"+c.K+"|"+c.V, labels, sample)
	}
	if msg != "" {
		fail(t, "C10", "c10", msg, c)
	}
}

var c10Texts = []string{"", "a", "A", "aBc", "123", "a,b", "Hello World", "z_9", " x ", "ABC", "abc-DEF", "0", "007", "-5", "1.5", "x1"}
var c10Ints = []int64{0, 1, 7, 10, 42, 999, 1000000, -1, -12, -1000000,
	// beyond what a float64 holds exactly
	9007199254740993, -9007199254740993, 1234567890123456789, 9223372036854775807, -9223372036854775807}
var c10FloatTexts = []string{"0.5", "1.5", "2.0", "10.25", "0.125", "3.0", "-0.5", "-2.75"}

func intExpr(n int64) *lib.Node {
	if n < 0 {
		return lib.Bin("-", lib.Int(0), lib.Int(-n))
	}
	return lib.Int(n)
}

func floatExpr(t string) *lib.Node {
	if strings.HasPrefix(t, "-") {
		return lib.Bin("-", lib.Int(0), lib.Float(t[1:]))
	}
	return lib.Float(t)
}

// textArg gives the (constant, row-dependent) forms of a text argument.
func textForms(s string) []struct {
	e    *lib.Node
	k, v string
	form string
} {
	type f = struct {
		e    *lib.Node
		k, v string
		form string
	}
	out := []f{{lib.Value(), "k", s, "row"}}
	if _, ok := lib.Quote(s); ok {
		out = append(out, f{lib.Str(s), "k", "unused", "const"})
	}
	if s != "" {
		out = append(out, f{lib.Key(), s, "unused", "row"})
	}
	// the same text as the result of another construct (the engine then holds
	// it in another representation than a stored value or a literal)
	out = append(out, f{lib.Bin("+", lib.Value(), lib.Str("")), "k", s, "row-derived"})
	if !strings.Contains(s, "|") {
		out = append(out, f{lib.Index(lib.Call("split", lib.Value(), lib.Str("|")), 0), "k", s, "row-derived"})
	}
	return out
}

// TestC10Pools: every function over its argument pool, constant and
// row-dependent forms.
func TestC10Pools(t *testing.T) {
	lib.Stats.Exhaustive = true
	idx := 0
	emit := func(fn, form string, e *lib.Node, k, v string) {
		idx++
		if lib.Mine(idx) {
			c10Run(t, &c10Case{E: e, K: k, V: v, Fn: fn, Form: form}, true)
		}
	}
	// --- text functions
	for _, s := range c10Texts {
		for _, tf := range textForms(s) {
			emit("upper", tf.form, lib.Call("upper", tf.e), tf.k, tf.v)
			emit("lower", tf.form, lib.Call("lower", tf.e), tf.k, tf.v)
			emit("strlen", tf.form, lib.Call("strlen", tf.e), tf.k, tf.v)
			emit("is_int", tf.form, lib.Call("is_int", tf.e), tf.k, tf.v)
			emit("is_float", tf.form, lib.Call("is_float", tf.e), tf.k, tf.v)
			emit("str", tf.form, lib.Call("str", tf.e), tf.k, tf.v)
			emit("int", tf.form, lib.Call("int", tf.e), tf.k, tf.v)
			emit("float", tf.form, lib.Call("float", tf.e), tf.k, tf.v)
			for _, ab := range [][2]int64{{0, 0}, {0, 1}, {0, 2}, {1, 2}, {1, 3}, {2, 2}, {2, 5}, {0, 100}, {3, 4}} {
				emit("substr", tf.form, lib.Call("substr", tf.e, lib.Int(ab[0]), lib.Int(ab[1])), tf.k, tf.v)
			}
		}
	}
	// --- integers
	for _, n := range c10Ints {
		emit("str", "const", lib.Call("str", intExpr(n)), "k", "unused")
		emit("str", "row", lib.Call("str", lib.Call("int", lib.Value())), "k", strconv.FormatInt(n, 10))
		emit("int(str)", "const", lib.Call("int", lib.Call("str", intExpr(n))), "k", "unused")
		emit("int(str)", "row", lib.Call("int", lib.Call("str", lib.Call("int", lib.Value()))), "k", strconv.FormatInt(n, 10))
		emit("strlen", "const", lib.Call("strlen", intExpr(n)), "k", "unused")
		emit("is_int", "row", lib.Call("is_int", lib.Call("int", lib.Value())), "k", strconv.FormatInt(n, 10))
		emit("float", "row", lib.Call("float", lib.Call("int", lib.Value())), "k", strconv.FormatInt(n, 10))
		emit("int", "row", lib.Call("int", lib.Value()), "k", strconv.FormatInt(n, 10))
	}
	for _, f := range c10FloatTexts {
		emit("float", "row", lib.Call("float", lib.Value()), "k", f)
		emit("float", "const", lib.Call("float", lib.Str(f)), "k", "unused")
		emit("is_float", "row", lib.Call("is_float", lib.Call("float", lib.Value())), "k", f)
		emit("float", "const", lib.Call("float", floatExpr(f)), "k", "unused")
	}
	// --- split / join / len / [n]
	parts := [][]string{{"a"}, {"a", "b"}, {"x", "", "y"}, {"", ""}, {"12", "7", "0"}, {"Hello", "World", "!", "z"}, {"a b", "c"}, {"p", "q", "r", "s", "t"}}
	for _, sep := range []string{",", "-", "ab", "::", " "} {
		for _, ps := range parts {
			clash := false
			for _, p := range ps {
				if strings.Contains(p, sep) {
					clash = true
				}
			}
			if clash {
				continue
			}
			joined := strings.Join(ps, sep)
			args := []*lib.Node{lib.Str(sep)}
			for _, p := range ps {
				args = append(args, lib.Str(p))
			}
			emit("join", "const", lib.Call("join", args...), "k", "unused")
			emit("len(split)", "row", lib.Call("len", lib.Call("split", lib.Value(), lib.Str(sep))), "k", joined)
			emit("len(split)", "const", lib.Call("len", lib.Call("split", lib.Str(joined), lib.Str(sep))), "k", "unused")
			emit("split", "row", lib.Call("split", lib.Value(), lib.Str(sep)), "k", joined)
			emit("split", "const", lib.Call("split", lib.Call("join", args...), lib.Str(sep)), "k", "unused")
			for i := range ps {
				emit("split[n]", "row", lib.Index(lib.Call("split", lib.Value(), lib.Str(sep)), int64(i)), "k", joined)
				emit("split[n]", "const", lib.Index(lib.Call("split", lib.Call("join", args...), lib.Str(sep)), int64(i)), "k", "unused")
				emit("split[n]", "row", lib.Index(lib.Call("split", lib.Key(), lib.Str(sep)), int64(i)), joined+"_", "unused")
			}
			// join(sep, split(s, sep)[0], ...) = s
			jargs := []*lib.Node{lib.Str(sep)}
			for i := range ps {
				jargs = append(jargs, lib.Index(lib.Call("split", lib.Value(), lib.Str(sep)), int64(i)))
			}
			emit("join(split)", "row", lib.Call("join", jargs...), "k", joined)
			// join with row-dependent and integer arguments
			emit("join", "row", lib.Call("join", lib.Str(sep), lib.Value(), lib.Call("strlen", lib.Value()), lib.Key()), "k", joined)
			emit("in(split)", "row", lib.InList(lib.Str(ps[0]), lib.Call("split", lib.Value(), lib.Str(sep))), "k", joined)
			emit("in(split)", "row", lib.InList(lib.Str("nope"), lib.Call("split", lib.Value(), lib.Str(sep))), "k", joined)
		}
	}
	// --- list constructors
	intLists := [][]int64{{1}, {1, 2, 3}, {0, 0}, {7, 5, 3, 1, 9}, {10, 20}}
	for _, l := range intLists {
		for _, fn := range []string{"list", "int_list", "ilist"} {
			var cargs, rargs []*lib.Node
			var texts []string
			for i, x := range l {
				cargs = append(cargs, lib.Int(x))
				rargs = append(rargs, lib.Call("int", lib.Index(lib.Call("split", lib.Value(), lib.Str(",")), int64(i))))
				texts = append(texts, strconv.FormatInt(x, 10))
			}
			val := strings.Join(texts, ",")
			emit(fn, "const", lib.Call(fn, cargs...), "k", "unused")
			emit(fn, "row", lib.Call(fn, rargs...), "k", val)
			emit("len("+fn+")", "const", lib.Call("len", lib.Call(fn, cargs...)), "k", "unused")
			emit("len("+fn+")", "row", lib.Call("len", lib.Call(fn, rargs...)), "k", val)
			for i := range l {
				emit(fn+"[n]", "const", lib.Index(lib.Call(fn, cargs...), int64(i)), "k", "unused")
				emit(fn+"[n]", "row", lib.Index(lib.Call(fn, rargs...), int64(i)), "k", val)
			}
			emit("in("+fn+")", "row", lib.InList(lib.Int(l[0]), lib.Call(fn, rargs...)), "k", val)
		}
	}
	floatLists := [][]string{{"0.5"}, {"1.5", "2.0", "0.25"}, {"3.0", "4.0"}, {"0.5", "0.5", "0.5", "0.5"}}
	for _, l := range floatLists {
		for _, fn := range []string{"list", "float_list", "flist"} {
			var cargs, rargs []*lib.Node
			for i, x := range l {
				cargs = append(cargs, lib.Float(x))
				rargs = append(rargs, lib.Call("float", lib.Index(lib.Call("split", lib.Value(), lib.Str(",")), int64(i))))
			}
			val := strings.Join(l, ",")
			emit(fn, "const", lib.Call(fn, cargs...), "k", "unused")
			emit(fn, "row", lib.Call(fn, rargs...), "k", val)
			emit("len("+fn+")", "row", lib.Call("len", lib.Call(fn, rargs...)), "k", val)
			for i := range l {
				emit(fn+"[n]", "const", lib.Index(lib.Call(fn, cargs...), int64(i)), "k", "unused")
				emit(fn+"[n]", "row", lib.Index(lib.Call(fn, rargs...), int64(i)), "k", val)
			}
		}
	}
	// text lists whose FIRST element reads as a number: still text lists
	for _, l := range [][]string{{"a"}, {"a", "b"}, {"x", "yz", ""}, {"1", "b"}, {"1.5", "b", "c"}, {"a", "1"}, {"007", "x"}, {"007", "1"}, {"1", "2"}, {"12", "1.5"}} {
		var cargs []*lib.Node
		for _, x := range l {
			cargs = append(cargs, lib.Str(x))
		}
		emit("list(text)", "const", lib.Call("list", cargs...), "k", "unused")
		emit("len(list(text))", "const", lib.Call("len", lib.Call("list", cargs...)), "k", "unused")
		for i := range l {
			emit("list(text)[n]", "const", lib.Index(lib.Call("list", cargs...), int64(i)), "k", "unused")
		}
		emit("list(text)", "row", lib.Call("list", lib.Key(), lib.Value()), "kk", "vv")
		emit("list(text)", "row", lib.Call("list", lib.Value(), lib.Key()), "kk", "1")
		emit("list(text)[n]", "row", lib.Index(lib.Call("list", lib.Value(), lib.Key()), 1), "kk", "2.5")
	}
	// --- distances
	vecs := [][]string{{"1", "2", "3"}, {"0", "0", "1"}, {"1.5", "2.5"}, {"3", "4"}, {"1"}, {"2", "2", "2", "2"}, {"0.5", "0.25", "1", "2"}}
	mkVec := func(v []string, row bool, other int) *lib.Node {
		if row {
			return lib.Call("split", lib.Index(lib.Call("split", lib.Value(), lib.Str(";")), int64(other)), lib.Str(","))
		}
		var args []*lib.Node
		allInt := true
		for _, x := range v {
			if strings.Contains(x, ".") {
				allInt = false
			}
		}
		for _, x := range v {
			if allInt {
				n, _ := strconv.ParseInt(x, 10, 64)
				args = append(args, lib.Int(n))
			} else {
				if !strings.Contains(x, ".") {
					x += ".0"
				}
				args = append(args, lib.Float(x))
			}
		}
		return lib.Call("list", args...)
	}
	for _, a := range vecs {
		for _, b := range vecs {
			val := strings.Join(a, ",") + ";" + strings.Join(b, ",")
			for _, fn := range []string{"l2_distance", "cosine_distance"} {
				emit(fn, "const", lib.Call(fn, mkVec(a, false, 0), mkVec(b, false, 1)), "k", "unused")
				emit(fn, "row", lib.Call(fn, mkVec(a, true, 0), mkVec(b, true, 1)), "k", val)
				emit(fn, "row", lib.Call(fn, mkVec(a, false, 0), mkVec(b, true, 1)), "k", val)
			}
		}
	}
	// --- JSON navigation
	docs := []string{
		`{"a": 1, "s": "x", "arr": [1, 2, 3], "o": {"k": "p", "n": 2, "deep": {"z": [true, "w"]}}, "b": true, "f": 1.5, "e": ""}`,
		`{"a": 0, "s": "", "arr": ["u", "v"], "o": {"k": "", "n": 0, "deep": {"z": [false, "q"]}}, "b": false, "f": 0.25, "e": "e"}`,
	}
	// the same documents with insignificant whitespace around and inside them
	for _, d := range append([]string(nil), docs...) {
		docs = append(docs, d+"\n", "  "+d, "\t"+d+" \n", strings.ReplaceAll(strings.ReplaceAll(d, ", ", ",\n  "), "{", "{\n  "))
	}
	docs = append(docs, `{"a":1,"s":"x","arr":[1,2,3],"o":{"k":"p","n":2,"deep":{"z":[true,"w"]}},"b":true,"f":1.5,"e":""}`)
	for _, d := range docs {
		j := func() *lib.Node { return lib.Call("json", lib.Value()) }
		emit("json[k]", "row", lib.Field(j(), "a"), "k", d)
		emit("json[k]", "row", lib.Field(j(), "s"), "k", d)
		emit("json[k]", "row", lib.Field(j(), "b"), "k", d)
		emit("json[k]", "row", lib.Field(j(), "f"), "k", d)
		emit("json[k]", "row", lib.Field(j(), "arr"), "k", d)
		emit("json[k]", "row", lib.Field(j(), "o"), "k", d)
		emit("json[k][k]", "row", lib.Field(lib.Field(j(), "o"), "k"), "k", d)
		emit("json[k][k]", "row", lib.Field(lib.Field(j(), "o"), "n"), "k", d)
		emit("json[k][n]", "row", lib.Index(lib.Field(j(), "arr"), 0), "k", d)
		emit("json[k][n]", "row", lib.Index(lib.Field(j(), "arr"), 1), "k", d)
		emit("json[k][k][k][n]", "row", lib.Index(lib.Field(lib.Field(lib.Field(j(), "o"), "deep"), "z"), 1), "k", d)
		emit("json[k][k][k][n]", "row", lib.Index(lib.Field(lib.Field(lib.Field(j(), "o"), "deep"), "z"), 0), "k", d)
		emit("len(json[k])", "row", lib.Call("len", lib.Field(j(), "arr")), "k", d)
		emit("int(json[k])", "row", lib.Call("int", lib.Field(j(), "a")), "k", d)
		emit("json[k]", "const", lib.Field(lib.Call("json", lib.Str(d)), "s"), "k", "unused")
		emit("json[k][n]", "const", lib.Index(lib.Field(lib.Call("json", lib.Str(d)), "arr"), 1), "k", "unused")
	}
}

// TestC10Sampled: rapid-sampled arguments beyond the pools.
func TestC10Sampled(t *testing.T) {
	rapid.Check(t, func(rt *rapid.T) {
		asciiText := rapid.StringMatching(`[ -&(-~]{0,12}`)
		word := rapid.StringMatching(`[a-zA-Z0-9_]{0,8}`)
		n := int64(rapid.IntRange(-1000000, 1000000).Draw(rt, "n"))
		if rapid.IntRange(0, 3).Draw(rt, "wideN") == 0 {
			n = rapid.Int64Range(-math.MaxInt64, math.MaxInt64).Draw(rt, "nWide")
		}
		var c *c10Case
		switch rapid.IntRange(0, 9).Draw(rt, "what") {
		case 0:
			s := asciiText.Draw(rt, "s")
			fn := rapid.SampledFrom([]string{"upper", "lower", "strlen", "str"}).Draw(rt, "fn")
			c = &c10Case{E: lib.Call(fn, lib.Value()), K: "k", V: s, Fn: fn, Form: "row"}
		case 1:
			s := asciiText.Draw(rt, "s")
			fn := rapid.SampledFrom([]string{"upper", "lower", "strlen"}).Draw(rt, "fn")
			if _, ok := lib.Quote(s); !ok {
				s = "q"
			}
			c = &c10Case{E: lib.Call(fn, lib.Str(s)), K: "k", V: "unused", Fn: fn, Form: "const"}
		case 2:
			c = &c10Case{E: lib.Call("int", lib.Call("str", lib.Call("int", lib.Value()))), K: "k", V: strconv.FormatInt(n, 10), Fn: "int(str)", Form: "row"}
		case 3:
			c = &c10Case{E: lib.Call("str", intExpr(n)), K: "k", V: "unused", Fn: "str", Form: "const"}
		case 4:
			np := rapid.IntRange(1, 5).Draw(rt, "nparts")
			var ps []string
			for i := 0; i < np; i++ {
				ps = append(ps, word.Draw(rt, "part"))
			}
			sep := rapid.SampledFrom([]string{",", "-", "::", "|", " "}).Draw(rt, "sep")
			i := rapid.IntRange(0, np-1).Draw(rt, "i")
			c = &c10Case{E: lib.Index(lib.Call("split", lib.Value(), lib.Str(sep)), int64(i)), K: "k", V: strings.Join(ps, sep), Fn: "split[n]", Form: "row"}
		case 5:
			np := rapid.IntRange(1, 5).Draw(rt, "nparts")
			args := []*lib.Node{lib.Str(rapid.SampledFrom([]string{",", "-", "::", ""}).Draw(rt, "sep"))}
			for i := 0; i < np; i++ {
				if rapid.Bool().Draw(rt, "intPart") {
					args = append(args, intExpr(int64(rapid.IntRange(-50, 50).Draw(rt, "ip"))))
				} else {
					args = append(args, lib.Str(word.Draw(rt, "wp")))
				}
			}
			c = &c10Case{E: lib.Call("join", args...), K: "k", V: "unused", Fn: "join", Form: "const"}
		case 6:
			np := rapid.IntRange(1, 6).Draw(rt, "dim")
			mk := func(name string) ([]*lib.Node, []string) {
				var ns []*lib.Node
				var ts []string
				for i := 0; i < np; i++ {
					q := rapid.IntRange(0, 40).Draw(rt, name)
					t := strconv.FormatFloat(float64(q)/4, 'f', -1, 64)
					if !strings.Contains(t, ".") {
						t += ".0"
					}
					ns = append(ns, lib.Float(t))
					ts = append(ts, t)
				}
				return ns, ts
			}
			a, at := mk("a")
			b, _ := mk("b")
			fn := rapid.SampledFrom([]string{"l2_distance", "cosine_distance"}).Draw(rt, "dist")
			if rapid.Bool().Draw(rt, "rowVec") {
				c = &c10Case{E: lib.Call(fn, lib.Call("split", lib.Value(), lib.Str(",")), lib.Call("float_list", b...)), K: "k", V: strings.Join(at, ","), Fn: fn, Form: "row"}
			} else {
				if rapid.IntRange(0, 5).Draw(rt, "mismatch") == 0 {
					b = b[:len(b)-1]
					if len(b) == 0 {
						b = []*lib.Node{lib.Float("1.0"), lib.Float("2.0")}
					}
				}
				c = &c10Case{E: lib.Call(fn, lib.Call("float_list", a...), lib.Call("float_list", b...)), K: "k", V: "unused", Fn: fn, Form: "const"}
			}
		case 7:
			s := asciiText.Draw(rt, "s")
			a := rapid.IntRange(0, 8).Draw(rt, "a")
			b := a + rapid.IntRange(0, 8).Draw(rt, "b")
			c = &c10Case{E: lib.Call("substr", lib.Value(), lib.Int(int64(a)), lib.Int(int64(b))), K: "k", V: s, Fn: "substr", Form: "row"}
		case 8:
			l := rapid.IntRange(1, 5).Draw(rt, "len")
			var args []*lib.Node
			for i := 0; i < l; i++ {
				args = append(args, lib.Bin("+", lib.Call("strlen", lib.Key()), lib.Int(int64(rapid.IntRange(0, 9).Draw(rt, "add")))))
			}
			fn := rapid.SampledFrom([]string{"list", "int_list", "ilist"}).Draw(rt, "lfn")
			i := rapid.IntRange(0, l-1).Draw(rt, "idx")
			c = &c10Case{E: lib.Index(lib.Call(fn, args...), int64(i)), K: word.Draw(rt, "key") + "k", V: "unused", Fn: fn + "[n]", Form: "row"}
		default:
			k := word.Draw(rt, "jk") + "x"
			sv := word.Draw(rt, "jv")
			doc := fmt.Sprintf(`{"%s": {"inner": ["%s", %d]}, "n": %d}`, k, sv, n, n)
			doc = rapid.SampledFrom([]string{"", "", " ", "\n", "\t "}).Draw(rt, "lead") + doc + rapid.SampledFrom([]string{"", "", " ", "\n", "\r\n"}).Draw(rt, "trail")
			e := lib.Index(lib.Field(lib.Field(lib.Call("json", lib.Value()), k), "inner"), int64(rapid.IntRange(0, 1).Draw(rt, "ji")))
			c = &c10Case{E: e, K: "k", V: doc, Fn: "json[k][k][n]", Form: "row"}
		}
		c10Run(rt, c, false)
	})
}

// ---- several rows per chunk, every argument row-dependent -------------------------

type c10MultiCase struct {
	E     *lib.Node  `json:"e"`
	Pairs []lib.Pair `json:"pairs"`
	Batch int        `json:"batch"`
	Fn    string     `json:"fn"`
	Query string     `json:"query"`
}

func init() {
	registerReplay("c10multi", func(c *c10MultiCase) string { m, _, _ := checkC10Multi(c); return m })
}

// checkC10Multi: the same expression over several pairs whose arguments ALL
// differ from row to row, drained row-wise and in chunks: every row must show
// the documented value for its own pair.
func checkC10Multi(c *c10MultiCase) (msg string, nontrivial bool, labels []string) {
	st := &lib.Stmt{Kind: "select", Fields: []lib.SelField{{E: lib.Key()}, {E: c.E}}, Where: lib.Bin("=", lib.Int(1), lib.Int(1))}
	q := st.Render()
	c.Query = q
	sorted := lib.NewStore(c.Pairs).Pairs()
	want := make([][]any, 0, len(sorted))
	distinct := map[string]bool{}
	for _, p := range sorted {
		v, err := lib.Eval(c.E, &lib.Env{K: p.K, V: p.V})
		if err != nil {
			return "", false, []string{"skipped-not-evaluable"}
		}
		want = append(want, []any{p.K, v})
		distinct[lib.Show(v)] = true
	}
	nontrivial = len(distinct) >= 2
	approx := isDistance(c.E)
	for _, cfg := range []lib.Cfg{{Mode: "row", Batch: c.Batch, Cache: true}, {Mode: "batch", Batch: c.Batch, Cache: true}, {Mode: "batch", Batch: 32, Cache: true}} {
		res := lib.Run(q, lib.NewStore(c.Pairs), len(c.Pairs), cfg)
		if res.Failed() {
			return fmt.Sprintf("query %q over %v [%s]: documented values %s, engine: %s", q, sorted, cfg, lib.ShowRows(want), res.Describe()), nontrivial, labels
		}
		ok := len(res.Rows) == len(want)
		for i := 0; ok && i < len(want); i++ {
			if len(res.Rows[i]) != 2 || !lib.EqualVal(want[i][0], res.Rows[i][0]) {
				ok = false
			} else if approx {
				ok = lib.ApproxEqualVal(want[i][1], res.Rows[i][1], 1e-12)
			} else {
				ok = lib.EqualVal(want[i][1], res.Rows[i][1])
			}
		}
		if !ok {
			return fmt.Sprintf("query %q over %v [%s]:\n  documented %s\n  engine     %s", q, sorted, cfg, lib.ShowRows(want), lib.ShowRows(res.Rows)), nontrivial, labels
		}
	}
	return "", nontrivial, labels
}

// c10MultiTemplates: calls whose every argument depends on the row. The key
// has the form "<sep><digit><letters>", the value is built to match.
func c10MultiTemplates() []struct {
	fn string
	e  *lib.Node
} {
	sepOfKey := func() *lib.Node { return lib.Call("substr", lib.Key(), lib.Int(0), lib.Int(1)) }
	numOfKey := func() *lib.Node { return lib.Call("int", lib.Call("substr", lib.Key(), lib.Int(1), lib.Int(2))) }
	type tp = struct {
		fn string
		e  *lib.Node
	}
	return []tp{
		{"split(value, row-sep)", lib.Call("split", lib.Value(), sepOfKey())},
		{"split(value, row-sep)[n]", lib.Index(lib.Call("split", lib.Value(), sepOfKey()), 1)},
		{"len(split(value, row-sep))", lib.Call("len", lib.Call("split", lib.Value(), sepOfKey()))},
		{"join(row-sep, ...)", lib.Call("join", sepOfKey(), lib.Value(), lib.Key(), numOfKey())},
		{"join(split)", lib.Call("join", sepOfKey(), lib.Index(lib.Call("split", lib.Value(), sepOfKey()), 0), lib.Index(lib.Call("split", lib.Value(), sepOfKey()), 1))},
		{"substr(value, row-start, row-end)", lib.Call("substr", lib.Value(), numOfKey(), lib.Bin("+", numOfKey(), lib.Call("strlen", sepOfKey())))},
		{"substr(value, 0, row-end)", lib.Call("substr", lib.Value(), lib.Int(0), numOfKey())},
		{"upper(value + key)", lib.Call("upper", lib.Bin("+", lib.Value(), lib.Key()))},
		{"lower(join)", lib.Call("lower", lib.Call("join", lib.Str("-"), lib.Key(), lib.Value()))},
		{"strlen(value + key)", lib.Call("strlen", lib.Bin("+", lib.Value(), lib.Key()))},
		{"str(num) + value", lib.Bin("+", lib.Call("str", numOfKey()), lib.Value())},
		{"int(str(num)) * strlen", lib.Bin("*", lib.Call("int", lib.Call("str", numOfKey())), lib.Call("strlen", lib.Value()))},
		{"float(num) / 2.0", lib.Bin("/", lib.Call("float", numOfKey()), lib.Float("2.0"))},
		{"is_int(row)", lib.Call("is_int", lib.Call("substr", lib.Key(), lib.Int(1), lib.Int(3)))},
		{"is_float(row)", lib.Call("is_float", lib.Index(lib.Call("split", lib.Value(), sepOfKey()), 0))},
		{"list(num, strlen)[n]", lib.Index(lib.Call("list", numOfKey(), lib.Call("strlen", lib.Value()), lib.Int(7)), 1)},
		{"int_list(num, strlen)", lib.Call("int_list", numOfKey(), lib.Call("strlen", lib.Value()))},
		{"float_list(num)[0]", lib.Index(lib.Call("float_list", lib.Call("float", numOfKey()), lib.Float("0.5")), 0)},
		{"len(list(...))", lib.Call("len", lib.Call("list", numOfKey(), lib.Call("strlen", lib.Value())))},
		{"l2_distance(row, row)", lib.Call("l2_distance", lib.Call("list", numOfKey(), lib.Call("strlen", lib.Value())), lib.Call("list", lib.Call("strlen", lib.Key()), numOfKey()))},
		{"cosine_distance(row, row)", lib.Call("cosine_distance", lib.Call("list", lib.Bin("+", numOfKey(), lib.Int(1)), lib.Call("strlen", lib.Key())), lib.Call("list", lib.Call("strlen", lib.Key()), lib.Bin("+", numOfKey(), lib.Int(2))))},
		{"row in split(row)", lib.InList(lib.Call("substr", lib.Key(), lib.Int(2), lib.Int(3)), lib.Call("split", lib.Value(), sepOfKey()))},
		{"num in int_list(row)", lib.InList(numOfKey(), lib.Call("int_list", lib.Call("strlen", lib.Value()), lib.Int(2)))},
	}
}

func genC10MultiPairs(rt *rapid.T) []lib.Pair {
	n := rapid.IntRange(2, 7).Draw(rt, "nrows")
	m := map[string]string{}
	for i := 0; i < n; i++ {
		sep := rapid.SampledFrom([]string{",", ":", ";", "-", "|", "x"}).Draw(rt, "sep")
		num := rapid.IntRange(0, 9).Draw(rt, "num")
		tail := rapid.StringMatching(`[a-c]{0,3}`).Draw(rt, "tail")
		np := rapid.IntRange(2, 4).Draw(rt, "nparts")
		parts := make([]string, np)
		for j := range parts {
			parts[j] = rapid.SampledFrom([]string{"a", "b", "ab", "1", "7", "Q", "", "c"}).Draw(rt, "part")
		}
		m[fmt.Sprintf("%s%d%s", sep, num, tail)] = strings.Join(parts, sep)
	}
	var ps []lib.Pair
	for k, v := range m {
		ps = append(ps, lib.Pair{K: k, V: v})
	}
	return lib.NewStore(ps).Pairs()
}

// TestC10Chunks: every template over random multi-pair stores.
func TestC10Chunks(t *testing.T) {
	tpls := c10MultiTemplates()
	rapid.Check(t, func(rt *rapid.T) {
		tp := rapid.SampledFrom(tpls).Draw(rt, "template")
		c := &c10MultiCase{E: tp.e, Pairs: genC10MultiPairs(rt), Batch: rapid.SampledFrom([]int{1, 2, 3}).Draw(rt, "batch"), Fn: tp.fn}
		lib.Journal("C10", "c10multi", c)
		msg, nt, labels := checkC10Multi(c)
		labels = append(labels, "fn="+tp.fn+"/chunk", "form=chunk")
		lib.Stats.Case(nt, c.Query+"|"+fmt.Sprint(c.Pairs, c.Batch), labels, func() any {
			return map[string]any{"query": c.Query, "pairs": c.Pairs, "batch": c.Batch}
		})
		if msg != "" {
			fail(rt, "C10", "c10multi", msg, c)
		}
	})
}
