package checks

import (
	"errors"
	"fmt"
	"strings"
	"testing"
	"unicode"
	"unicode/utf8"

	"github.com/c4pt0r/kvql"
	"pgregory.net/rapid"

	"verif/lib"
)

// C17 — reported error positions lie inside the query and render with an
// aligned caret.

type c17Case struct {
	Query   string     `json:"query"`
	Pairs   []lib.Pair `json:"pairs"`
	PadMode int        `json:"padmode"` // 0 default(7) 1 SetPadding(0) 2 SetPadding(20) 3 DefaultErrorPadding=3
}

func init() { registerReplay("c17", func(c *c17Case) string { m, _, _ := checkC17(c); return m }) }

func isPositional(err error) (pos int, ok bool, build bool) {
	var se *kvql.SyntaxError
	if errors.As(err, &se) {
		return se.Pos, true, true
	}
	var ee *kvql.ExecuteError
	if errors.As(err, &ee) {
		return ee.Pos, true, false
	}
	return 0, false, false
}

// checkRender verifies the window / caret / message layout of a bound error
// (checkRenderOnce), then, then changes the padding of the SAME
// error and verifies it again: what was shown before must not stick.
func checkRender(q string, err error, pos int, pad int, setPad bool) string {
	if m := checkRenderOnce(q, err, pos, pad, setPad); m != "" {
		return m
	}
	pad2 := pad + 5
	if pad >= 12 {
		pad2 = 2
	}
	if m := checkRenderOnce(q, err, pos, pad2, true); m != "" {
		return "after the padding of the same error was changed from " + fmt.Sprint(pad) + ": " + m
	}
	return ""
}

func checkRenderOnce(q string, err error, pos int, pad int, setPad bool) string {
	if q == "" {
		return "" // nothing to show for the empty text (binding it is a no-op)
	}
	if qb, ok := err.(kvql.QueryBinder); ok {
		qb.BindQuery(q)
		if setPad {
			qb.SetPadding(pad)
		}
	} else {
		return ""
	}
	var text string
	var pan any
	func() {
		defer func() { pan = recover() }()
		text = err.Error()
	}()
	if pan != nil {
		return fmt.Sprintf("rendering the error of %q (position %d, padding %d) panicked: %v", q, pos, pad, pan)
	}
	lines := strings.Split(text, "\n")
	if len(lines) != 3 {
		return fmt.Sprintf("rendered error of %q has %d lines instead of query / caret / message:\n%s", q, len(lines), text)
	}
	window, caretLine, msgLine := lines[0], lines[1], lines[2]
	c := strings.IndexByte(caretLine, '^')
	if c < 0 || strings.TrimLeft(caretLine, " ") != "^--" {
		return fmt.Sprintf("rendered error of %q has no caret line:\n%s", q, text)
	}
	if !strings.HasPrefix(msgLine, strings.Repeat(" ", pad)) || (len(msgLine) > pad && msgLine[pad] == ' ') {
		return fmt.Sprintf("message line of the rendered error of %q is not indented by the padding %d:\n%s", q, pad, text)
	}
	// offset the caret must point at, in terms of the original query
	trimmedEnd := len(strings.TrimRightFunc(q, unicode.IsSpace))
	lead := len(q) - len(strings.TrimLeftFunc(q, unicode.IsSpace))
	target := pos
	if pos == -1 {
		target = trimmedEnd
	}
	if target < lead {
		target = lead // the leading blanks are not displayed
	}
	if target > trimmedEnd {
		target = trimmedEnd
	}
	// the window may carry a "... " prefix and a " ..." suffix
	for _, pre := range []string{"", "... "} {
		for _, suf := range []string{"", " ..."} {
			if !strings.HasPrefix(window, pre) || !strings.HasSuffix(window, suf) || len(window) < len(pre)+len(suf) {
				continue
			}
			w := window[len(pre) : len(window)-len(suf)]
			idx := c - pad - len(pre) // index of the caret inside w
			if idx < 0 || idx > len(w) {
				continue
			}
			a := target - idx
			if a < 0 || a+len(w) > len(q) || q[a:a+len(w)] != w {
				continue
			}
			// the window must contain the offset (or end right at it for end-of-input)
			if idx == len(w) && target != trimmedEnd && suf == "" {
				continue
			}
			return ""
		}
	}
	return fmt.Sprintf("rendered error of %q (position %d, padding %d): the caret at column %d is not under the character at that offset, or the window is not the stretch of the query around it:\n%s", q, pos, pad, c, text)
}

func checkC17(c *c17Case) (msg string, nontrivial bool, labels []string) {
	q := c.Query
	pad := 7
	setPad := false
	old := kvql.DefaultErrorPadding
	defer func() { kvql.DefaultErrorPadding = old }()
	switch c.PadMode {
	case 1:
		pad, setPad = 0, true
	case 2:
		pad, setPad = 20, true
	case 3:
		kvql.DefaultErrorPadding = 3
		pad = 3
	}
	// token starts come from the reference tokeniser (independent of the
	// engine's own offsets); the engine lexer is consulted only for texts
	// whose tokenisation the documentation does not fix (a bare ^ or ~)
	starts := map[int]bool{0: true}
	ref, refOK := lib.RefLex(q)
	for _, tk := range ref {
		starts[tk.Pos] = true
	}
	if !refOK {
		for _, tk := range kvql.NewLexer(q).Split() {
			// whatever the lexer makes of an undocumented blank (form feed,
			// NBSP), no token begins ON a blank
			if r, _ := utf8.DecodeRuneInString(q[min(tk.Pos, len(q)):]); tk.Pos < len(q) && unicode.IsSpace(r) {
				continue
			}
			starts[tk.Pos] = true
		}
	}
	if !refOK {
		// the reference reads an undocumented blank as a word byte: its token
		// starts on such a blank are not token starts under either reading
		for p := range starts {
			if p > 0 && p < len(q) {
				if r, _ := utf8.DecodeRuneInString(q[p:]); unicode.IsSpace(r) {
					delete(starts, p)
				}
			}
		}
	}
	lead := len(q) - len(strings.TrimLeftFunc(q, unicode.IsSpace))
	seen := false
	for _, cfg := range []lib.Cfg{{Mode: "row", Batch: 32, Cache: true}, {Mode: "batch", Batch: 3, Cache: true}} {
		res := lib.Run(q, lib.NewStore(c.Pairs), len(c.Pairs), cfg)
		if res.Panic != "" || res.StepCap {
			return "", false, []string{"crash-is-C06"} // C06's subject
		}
		err := res.BuildErr
		if err == nil {
			err = res.ExecErr
		}
		if err == nil {
			continue
		}
		pos, ok, isSyntax := isPositional(err)
		if !ok {
			labels = append(labels, "non-positional-error")
			continue
		}
		seen = true
		if pos != -1 && (pos < 0 || pos >= len(q)) {
			return fmt.Sprintf("query %q (%d bytes): error %q carries position %d, outside the query", q, len(q), errMsg(err), pos), true, labels
		}
		_ = isSyntax
		if res.BuildErr != nil {
			// whatever its Go type, an error returned by BuildPlan was raised
			// while parsing, type-checking or planning
			if pos != -1 && !starts[pos] {
				return fmt.Sprintf("query %q: plan-time error %q carries position %d, which is not the start of a token (token starts %v)", q, errMsg(err), pos, sortedInts(starts)), true, labels
			}
			labels = append(labels, "build-error")
		} else {
			labels = append(labels, "run-error")
		}
		if strings.ContainsAny(q, "\r\n") {
			// a statement written on several lines: the position is checked,
			// the rendering is line oriented (level note)
			labels = append(labels, "multi-line-position-only")
		} else if m := checkRender(q, err, pos, pad, setPad); m != "" {
			return m, true, labels
		}
		if pos >= 0 && (len(q) > 70 || lead > 0) {
			nontrivial = true
		}
		if res.BuildErr != nil {
			break
		}
	}
	if !seen {
		labels = append(labels, "no-positional-error")
	}
	return "", nontrivial, labels
}

func errMsg(err error) string {
	var se *kvql.SyntaxError
	if errors.As(err, &se) {
		return se.Message
	}
	var ee *kvql.ExecuteError
	if errors.As(err, &ee) {
		return ee.Message
	}
	return err.Error()
}

func sortedInts(m map[int]bool) []int {
	var r []int
	for k := range m {
		r = append(r, k)
	}
	for i := range r {
		for j := i + 1; j < len(r); j++ {
			if r[j] < r[i] {
				r[i], r[j] = r[j], r[i]
			}
		}
	}
	return r
}

func c17Run(t lib.Fataler, c *c17Case, extra ...string) {
	lib.Journal("C17", "c17", c)
	msg, nt, labels := checkC17(c)
	labels = append(labels, extra...)
	labels = append(labels, fmt.Sprintf("padmode=%d", c.PadMode))
	lib.Stats.Case(nt, fmt.Sprint(c.Query, "|", c.PadMode, len(c.Pairs)), labels, func() any {
		return map[string]any{"query": c.Query, "padmode": c.PadMode}
	})
	if msg != "" {
		fail(t, "C17", "c17", msg, c)
	}
}

// longish: statements longer than the 70-character error window.
func genC17Stmt(rt *rapid.T, kind lib.StoreKind, pairs []lib.Pair) string {
	q := lib.GenAnyStmt(rt, kind, pairs, true).Render()
	if len(q) < 70 && rapid.Bool().Draw(rt, "lengthen") {
		// a long IN list or select list in front of the interesting part
		n := rapid.IntRange(5, 40).Draw(rt, "padItems")
		if strings.HasPrefix(q, "select ") && !strings.HasPrefix(q, "select *") {
			q = "select " + strings.Repeat("key, ", n) + q[len("select "):]
		} else if i := strings.Index(q, "where "); i >= 0 {
			q = q[:i+6] + "key in (" + strings.Repeat("'zz', ", n) + "'zz') | " + q[i+6:]
		}
	}
	return q
}

// TestC17Corrupt: corrupted statements x leading/trailing blanks x padding.
func TestC17Corrupt(t *testing.T) {
	rapid.Check(t, func(rt *rapid.T) {
		kind := lib.GenKind(rt)
		pairs := lib.GenStore(rt, kind, rapid.SampledFrom([]int{0, 3, 8}).Draw(rt, "n"))
		q := genC17Stmt(rt, kind, pairs)
		other := lib.GenAnyStmt(rt, kind, pairs, true).Render()
		cq, edit := lib.Corrupt(rt, q, other)
		if rapid.Bool().Draw(rt, "widenSpaces") {
			cq = widenSpaces(rt, cq)
		}
		cq = strings.Repeat(" ", rapid.SampledFrom([]int{0, 0, 1, 3, 10, 50}).Draw(rt, "lead")) + cq + strings.Repeat(" ", rapid.SampledFrom([]int{0, 0, 1, 5, 50}).Draw(rt, "trail"))
		c17Run(rt, &c17Case{Query: cq, Pairs: pairs, PadMode: rapid.IntRange(0, 3).Draw(rt, "padmode")}, "edit="+edit)
	})
}

// TestC17RunTime: valid statements that fail while executing (division by a
// row-dependent zero, distance of vectors of different length, bad pattern).
func TestC17RunTime(t *testing.T) {
	rapid.Check(t, func(rt *rapid.T) {
		pairs := lib.GenHostileStore(rt)
		kind := lib.GenKind(rt)
		q := genC17Stmt(rt, kind, pairs)
		if rapid.Bool().Draw(rt, "widenSpaces") {
			q = widenSpaces(rt, q)
		}
		q = strings.Repeat(" ", rapid.SampledFrom([]int{0, 0, 2, 30}).Draw(rt, "lead")) + q + strings.Repeat(" ", rapid.SampledFrom([]int{0, 0, 4}).Draw(rt, "trail"))
		c17Run(rt, &c17Case{Query: q, Pairs: pairs, PadMode: rapid.IntRange(0, 3).Draw(rt, "padmode")}, "runtime-leg")
	})
}

// TestC17Typed: statically ill-typed statements (one fault placed at a
// generated position) — the positional errors of the checker.
func TestC17Typed(t *testing.T) {
	rapid.Check(t, func(rt *rapid.T) {
		kind := lib.GenKind(rt)
		pairs := lib.GenStore(rt, kind, 3)
		st := lib.GenSelect(rt, kind, pairs, lib.SelOpts{Aliases: true, Aggregate: 1, Order: true, Limit: true})
		mut, fault := mutateStmt(rt, st)
		if mut == nil {
			return
		}
		q := mut.Render()
		if rapid.Bool().Draw(rt, "widenSpaces") {
			q = widenSpaces(rt, q)
		}
		q = strings.Repeat(" ", rapid.SampledFrom([]int{0, 0, 2, 30}).Draw(rt, "lead")) + q
		c17Run(rt, &c17Case{Query: q, Pairs: pairs, PadMode: rapid.IntRange(0, 3).Draw(rt, "padmode")}, "fault="+fault)
	})
}

// widenSpaces replaces some single blanks between tokens (never inside a
// quoted literal) by runs of two to four blanks: spacing between tokens is
// irrelevant to the tokens, so positions must still be token starts.
func widenSpaces(rt *rapid.T, q string) string {
	var sb strings.Builder
	quote := byte(0)
	// one statement in four gets such a blank behind every space, so that
	// whichever token the error lands on is preceded by one
	oddEverywhere := rapid.IntRange(0, 3).Draw(rt, "oddBlankEverywhere") == 0
	// one statement in five is written over several lines (CRLF or LF, tabs)
	lineEnds := rapid.IntRange(0, 4).Draw(rt, "lineEnds") == 0
	for i := 0; i < len(q); i++ {
		ch := q[i]
		switch {
		case quote != 0:
			if ch == quote {
				quote = 0
			}
		case ch == '\'' || ch == '"' || ch == '`':
			quote = ch
		case ch == ' ':
			if rapid.IntRange(0, 3).Draw(rt, "widen") == 0 {
				sb.WriteString(strings.Repeat(" ", rapid.IntRange(1, 3).Draw(rt, "extraBlanks")))
			}
			if lineEnds && rapid.IntRange(0, 3).Draw(rt, "lineEnd") == 0 {
				// the statement continues on the next line (or behind a tab)
				sb.WriteString(rapid.SampledFrom([]string{"\r\n", "\n", "\t", "\r\n\t", "\n\n"}).Draw(rt, "lineEndText"))
				continue
			}
			if oddEverywhere || rapid.IntRange(0, 15).Draw(rt, "oddBlank") == 0 {
				// a blank the documentation does not mention, behind a space
				// and in front of the next token
				odd := rapid.SampledFrom([]string{"\f", "\v", "\u00a0", "\u3000"}).Draw(rt, "oddBlankRune")
				if rapid.Bool().Draw(rt, "oddBlankBehindToken") {
					// glued to the token in front of the space instead
					sb.WriteString(odd)
					sb.WriteByte(ch)
				} else {
					sb.WriteByte(ch)
					sb.WriteString(odd)
				}
				continue
			}
		}
		sb.WriteByte(ch)
	}
	return sb.String()
}
