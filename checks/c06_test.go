package checks

import (
	"fmt"
	kvql "github.com/c4pt0r/kvql"
	"strings"
	"syscall"
	"testing"
	"time"

	"pgregory.net/rapid"

	"verif/lib"
)

// C06 — no query text and no data can crash the library.

type c06Case struct {
	Query string     `json:"query"`
	Pairs []lib.Pair `json:"pairs"`
}

func init() { registerReplay("c06", func(c *c06Case) string { m, _, _ := checkC06(c); return m }) }

var c06Cfgs = []lib.Cfg{
	{Mode: "row", Batch: 32, Cache: true},
	{Mode: "batch", Batch: 1, Cache: true},
	{Mode: "batch", Batch: 2, Cache: true},
	{Mode: "batch", Batch: 3, Cache: true},
	{Mode: "batch", Batch: 32, Cache: true},
}

func cpuSeconds() float64 {
	var ru syscall.Rusage
	if err := syscall.Getrusage(syscall.RUSAGE_SELF, &ru); err != nil {
		return 0
	}
	return float64(ru.Utime.Sec) + float64(ru.Utime.Usec)/1e6 + float64(ru.Stime.Sec) + float64(ru.Stime.Usec)/1e6
}

// checkC06: parse, plan, execute in both modes to exhaustion and render every
// error; the only acceptable outcomes are rows or an error value.
func checkC06(c *c06Case) (msg string, nontrivial bool, labels []string) {
	q := c.Query
	start := cpuSeconds()
	stage := "rejected"
	// the other public entry point that parses a query text
	if pan := func() (pan string) {
		defer func() {
			if p := recover(); p != nil {
				pan = fmt.Sprint(p)
			}
		}()
		kvql.BuildExecutor(q)
		return ""
	}(); pan != "" {
		return fmt.Sprintf("BuildExecutor(%q) panicked: %s", q, pan), true, labels
	}
	for ci, cfg := range c06Cfgs {
		if ci >= 2 && len(c.Pairs) == 0 {
			break
		}
		in := lib.NewInstr(lib.NewStore(c.Pairs))
		res := lib.Build(q, in, cfg)
		if res.Panic != "" {
			return fmt.Sprintf("planning %q panicked: %s", q, res.Panic), true, labels
		}
		var err error
		if res.BuildErr != nil {
			err = res.BuildErr
		} else {
			lib.Drain(res, cfg, 4*len(c.Pairs)+len(q)+64)
			if res.Panic != "" {
				return fmt.Sprintf("executing %q over %d pairs [%s] panicked: %s", q, len(c.Pairs), cfg, res.Panic), true, labels
			}
			if res.StepCap {
				return fmt.Sprintf("executing %q over %d pairs [%s] did not finish within %d polls", q, len(c.Pairs), cfg, res.Steps), true, labels
			}
			err = res.ExecErr
			if ci == 0 {
				stage = "executed"
				for _, cl := range in.Calls() {
					if cl.Op == "Get" || cl.Op == "Next" {
						nontrivial = true
					}
				}
				if c.Pairs == nil {
					nontrivial = true
				}
			}
		}
		if err != nil {
			if ci == 0 {
				if _, ok := lib.ErrPos(err); ok {
					labels = append(labels, "positional-error")
					if stage == "rejected" {
						nontrivial = true
					}
				}
			}
			for _, pad := range []int{-1, 0, 20} {
				text, pan := lib.RenderError(err, q, pad)
				if pan != "" {
					return fmt.Sprintf("rendering the error of %q (padding %d) panicked: %s", q, pad, pan), true, labels
				}
				_ = text
			}
			if res.BuildErr != nil {
				break // the same rejection in every configuration
			}
		}
	}
	labels = append(labels, "stage="+stage)
	if used := cpuSeconds() - start; used > 30 {
		return fmt.Sprintf("query %q over %d pairs used %.0f CPU-seconds", q, len(c.Pairs), used), true, labels
	}
	return "", nontrivial, labels
}

func c06Run(t lib.Fataler, c *c06Case, enum bool, extra ...string) {
	lib.Journal("C06", "c06", c)
	msg, nt, labels := checkC06(c)
	labels = append(labels, extra...)
	sample := func() any {
		q := c.Query
		if len(q) > 200 {
			q = q[:200] + "…"
		}
		return map[string]any{"query": q, "pairs": len(c.Pairs)}
	}
	if enum {
		lib.Stats.EnumCase(nt, labels, sample)
	} else {
		lib.Stats.Case(nt, c.Query+"|"+fmt.Sprint(len(c.Pairs)), labels, sample)
	}
	if msg != "" {
		fail(t, "C06", "c06", msg, c)
	}
}

func genC06Store(rt *rapid.T) ([]lib.Pair, lib.StoreKind) {
	kind := lib.GenKind(rt)
	if rapid.IntRange(0, 2).Draw(rt, "hostileStore") != 0 {
		return lib.GenHostileStore(rt), kind
	}
	return lib.GenStore(rt, kind, lib.GenStoreSize(rt)), kind
}

// TestC06Grammar: grammar-generated statements of the full language over
// hostile stores.
func TestC06Grammar(t *testing.T) {
	rapid.Check(t, func(rt *rapid.T) {
		pairs, kind := genC06Store(rt)
		st := lib.GenAnyStmt(rt, kind, pairs, true)
		c06Run(rt, &c06Case{Query: st.Render(), Pairs: pairs}, false, "grammar")
	})
}

// TestC06Corrupt: single-edit (and double-edit) corruptions of generated
// statements.
func TestC06Corrupt(t *testing.T) {
	rapid.Check(t, func(rt *rapid.T) {
		pairs, kind := genC06Store(rt)
		q := lib.GenAnyStmt(rt, kind, pairs, true).Render()
		other := lib.GenAnyStmt(rt, kind, pairs, true).Render()
		cq, edit := lib.Corrupt(rt, q, other)
		if rapid.IntRange(0, 4).Draw(rt, "secondEdit") == 0 {
			cq, _ = lib.Corrupt(rt, cq, other)
			edit = "double"
		}
		c06Run(rt, &c06Case{Query: cq, Pairs: pairs}, false, "edit="+edit)
	})
}

// TestC06Long: long inputs — deep parentheses, long ! chains, long operator
// chains, long IN lists, long select lists (up to a few kilobytes).
func TestC06Long(t *testing.T) {
	pairs := lib.FixedHostileStore(1)
	var qs []string
	for _, n := range []int{10, 100, 500, 1500} {
		qs = append(qs,
			"select * where "+strings.Repeat("(", n)+"key = 'a'"+strings.Repeat(")", n),
			"select * where "+strings.Repeat("(", n)+"key = 'a'",
			"select * where key = 'a'"+strings.Repeat(")", n),
			"select * where "+strings.Repeat("!", n)+"(key = 'a')",
			"select * where "+strings.Repeat("!(", n)+"key = 'a'"+strings.Repeat(")", n),
			"select "+strings.Repeat("int(value) + ", n)+"1 where key ^= 'a'",
			"select "+strings.Repeat("upper(", n)+"key"+strings.Repeat(")", n)+" where key ^= 'a'",
			"select * where key in ("+strings.Repeat("'a', ", n)+"'b')",
			"select * where int(value) in ("+strings.Repeat("1, ", n)+"2)",
			"select "+strings.Repeat("key, ", n)+"value where key ^= 'a' order by key desc",
			"select * where "+strings.Repeat("key = 'a' | ", n)+"key = 'b'",
			"select * where "+strings.Repeat("key ^= 'a' & ", n)+"key ^= 'ab'",
			"select json(value)"+strings.Repeat("['a']", n)+" where key ^= 'a'",
			"select split(value, ',')"+strings.Repeat("[0]", n)+" where key ^= 'a'",
			"put "+strings.Repeat("('k', 'v'), ", n)+"('z', 'z')",
			"remove "+strings.Repeat("'k', ", n)+"'z'",
			"select * where key = '"+strings.Repeat("x", 2*n)+"'",
			"select * where key ~= '"+strings.Repeat("(a*)*", n/10+1)+"b'",
			strings.Repeat(";", n)+"select * where key = 'a'"+strings.Repeat(";", n),
			"select * where "+strings.Repeat("1 + ", n)+"1 = "+fmt.Sprint(n+1),
			"select value as v0"+func() string {
				var sb strings.Builder
				for i := 1; i < n && i < 300; i++ {
					fmt.Fprintf(&sb, ", v%d + '' as v%d", i-1, i)
				}
				return sb.String()
			}()+" where key ^= 'a'",
		)
	}
	for i, q := range qs {
		if len(q) > 8192 {
			continue
		}
		if !lib.Mine(i) {
			continue
		}
		c06Run(t, &c06Case{Query: q, Pairs: pairs}, true, "long")
	}
}

// TestC06Seeds: the README / spec examples and the crashers named in the
// property text, over each fixed hostile store.
func TestC06Seeds(t *testing.T) {
	for i, q := range c06SeedQueries {
		for s := 0; s < 6; s++ {
			if !lib.Mine(i*6 + s) {
				continue
			}
			c06Run(t, &c06Case{Query: q, Pairs: lib.FixedHostileStore(s)}, true, "seed")
		}
	}
}

var c06SeedQueries = []string{
	"select * where key ^= 'k'",
	"select key, int(value) + 1 where key in ('k1', 'k2', 'k3') & is_int(value)",
	"select count(1), sum(int(value)) as sum, substr(key, 0, 2) as kprefix where key between 'k' and 'l' group by kprefix order by sum desc",
	"select key, json(value)['x']['y'] where key ^= 'k' & int(json(value)['test']) >= 1",
	"select key, json(value)['list'][1] where key ^= 'k'",
	"select key, int(value) as f1 where f1 > 10",
	"select key, split(value) as f1 where 'a' in f1",
	"select key, split(value, ',') as f1 where 'a' in f1",
	"select key, value, l2_distance(list(1,2,3,4), json(value)) as l2_dis where key ^= 'embedding_json' & l2_dis > 0.6 order by l2_dis desc limit 5",
	"put ('k1', 'v1'), ('k2', upper('v' + key))",
	"delete where key ^= 'prefix' and value ~= '^val_' limit 10",
	"delete where key in ('k1', 'k2', 'k3')",
	"select key, ((int(value) + 1) * 8) where key ^= \"prefix\"",
	"select key, l2_distance(list(1,2,3,4), split(value, \",\")) where key ^= \"k\"",
	"select key, list(1,2,3,4)[2] where key ^= \"k\"",
	"select key, substr(value, 2, 3) as mid, value where mid between \"b\" and \"e\"",
	"select * where key ^= \"json\" & json(value)[\"user\"] = \"Bob\"",
	"select key, int(value) as snum where key ^= \"k\" order by snum asc, key asc",
	"select count(1), substr(key, 3, 4) as pk where key ^= \"k\" group by pk",
	"put (\"k3\", upper(\"value3\")), (\"k4\", join(\",\", 1, 2, 3, 4))",
	"remove \"k1\", \"k2\"",
	"select substr(key, 2, 1) where key ^= 'a'",
	"select upper(u) as u where key = 'a'",
	"select u + 1 as u where key = 'a'",
	"select json(value)['a'] as j where key ^= '' order by j",
	"select key, int(value) as n where key in ('a', 'ab', 'abc', 'b') & n > 1",
	"select join() where key ^= 'a'",
	"select list() where key ^= 'a'",
	"select key, sum(float(value)) as s where key ^= '' group by key order by s",
	"select quantile(float(value), 0.5), avg(value), min(value), max(value) where key ^= ''",
	"select quantile(float(value), 2) where key ^= ''",
	"select cosine_distance(split(value, ','), list(1, 2)) where key ^= ''",
	"select l2_distance(json(value)['arr'], list(1, 2)) where key ^= ''",
	"select * where key between 'z' and 'a'",
	"select * where int(value) / (strlen(key) - 1) > 0",
	"select * where value ~= '['",
	"select group_concat(value, ','), json_arrayagg(value) where key ^= ''",
	"select group_concat(value) where key ^= ''",
	"select * where key ^= 'k' limit 99999999999999999999",
	"select * where key ^= 'k' limit 9223372036854775807, 9223372036854775807",
	"select * where",
	"select where",
	"",
	";",
	"where",
	"select * where key = 'a' order by",
	"select * where key = 'a' group by",
	"select * where key = 'a' limit",
	"select key where key = 'a' group by key",
	"select key, count(1) where key ^= 'a' group by key order by key limit 1, 1",
	"put",
	"put (",
	"put ('a')",
	"remove",
	"delete",
	"delete where",
	"select `a b` where key = 'a'",
	"select key as `select` where key = 'a'",
	"select * where key[0] = 'a'",
	"select * where json(value)[key] = 'a'",
	"select * where json(value)[] = 'a'",
	"select * where (key = 'a')(1)",
	"select * where 'a'('b')",
	"select * where 1(2)",
	"select int(value)(1) where key = 'a'",
	"select * where key in ()",
	"select * where key in (1, 'a')",
	"select * where key between 'a'",
	"select * where key between 'a' and",
	"select * where ! ! ! key = 'a'",
	"select *, key where key = 'a'",
	"select key, * where key = 'a'",
	"select -1 where key = 'a'",
	"select 1 - - 1 where key = 'a'",
	"select * where key = 'a' order by key order by key",
	"select * where key = 'a' limit 1 limit 1",
	"select * where key = 'a' limit 1, 2, 3",
	"select * where key = 'a' limit 1,",
	"select * where key = 'a' limit ,1",
}

// ---- dynamically typed members ------------------------------------------------

// c06Shapes: the JSON text of member "m" in each dynamic type a document can give it.
var c06Shapes = []struct{ name, text string }{
	{"int", `7`}, {"float", `2.5`}, {"string", `"x"`}, {"numeric-string", `"12"`}, {"bool", `true`}, {"null", `null`},
	{"int-array", `[1, 2, 3]`}, {"string-array", `["a", "b"]`}, {"mixed-array", `[1, "a", null, [2]]`}, {"empty-array", `[]`},
	{"object", `{"k": 1, "n": "v"}`}, {"missing", ``},
}

// c06Templates: every operator family and function applied to a dynamically
// typed member (json(value)['m'] is typed as text by the checker, so all of
// these are accepted).
var c06Templates = []string{
	"select key, json(value)['m'] where key ^= ''",
	"select key where json(value)['m'] = 'x'",
	"select key where json(value)['m'] != 'x'",
	"select key where 'x' = json(value)['m']",
	"select key where json(value)['m'] = json(value)['n']",
	"select key where json(value)['m'] < 'y'",
	"select key where json(value)['m'] >= json(value)['n']",
	"select key where json(value)['m'] ^= 'x'",
	"select key where json(value)['m'] ~= '^x'",
	"select key where json(value)['m'] in ('x', '12')",
	"select key where 'x' in json(value)['m']",
	"select key where json(value)['m'] between 'a' and 'z'",
	"select key where int(json(value)['m']) > 3",
	"select key where float(json(value)['m']) * 2 > 3",
	"select key where is_int(json(value)['m']) | is_float(json(value)['m'])",
	"select key, json(value)['m'] + 'x' where key ^= ''",
	"select key, upper(json(value)['m']), lower(json(value)['m']), strlen(json(value)['m']), str(json(value)['m']) where key ^= ''",
	"select key, substr(json(value)['m'], 0, 1) where key ^= ''",
	"select key, split(json(value)['m'], ',') where key ^= ''",
	"select key, join(',', json(value)['m'], 1) where key ^= ''",
	"select key, len(json(value)['m']) where key ^= ''",
	"select key, list(json(value)['m'], 2), int_list(json(value)['m']), float_list(json(value)['m']) where key ^= ''",
	"select key, json(value)['m'][0] where key ^= ''",
	"select key, json(value)['m'][1][0] where key ^= ''",
	"select key, json(value)['m']['k'] where key ^= ''",
	"select key, json(value)['m']['k']['z'] where key ^= ''",
	"select key, l2_distance(json(value)['m'], list(1, 2, 3)), cosine_distance(list(1, 2, 3), json(value)['m']) where key ^= ''",
	"select key, json(json(value)['m']) where key ^= ''",
	"select key, json(value)['m'] as j where key ^= '' order by j",
	"select key, json(value)['m'] as j where key ^= '' order by j desc, key",
	"select json(value)['m'] as g, count(1) where key ^= '' group by g",
	"select count(1), sum(json(value)['m']), avg(json(value)['m']), min(json(value)['m']), max(json(value)['m']) where key ^= ''",
	"select quantile(json(value)['m'], 0.5), group_concat(json(value)['m'], ','), json_arrayagg(json(value)['m']) where key ^= ''",
	"select key as k, json(value)['m'] as j, j + 'x' as w where j = 'x' | w != 'q'",
	"select key where !(json(value)['m'] = 'x') & json(value)['m'] != ''",
	"put ('p', 'v')",
	"delete where json(value)['m'] = 'x'",
	"delete where int(json(value)['m']) < 100 limit 1",
}

// TestC06Dynamic: every template over every assignment of dynamic types to
// the member in the first three rows (the batch path chooses its comparison
// kind from the first row of the chunk).
func TestC06Dynamic(t *testing.T) {
	lib.Stats.Exhaustive = true
	idx := 0
	doc := func(m, n string) string {
		parts := []string{}
		if m != "" {
			parts = append(parts, `"m": `+m)
		}
		if n != "" {
			parts = append(parts, `"n": `+n)
		}
		return "{" + strings.Join(parts, ", ") + "}"
	}
	for ti, tpl := range c06Templates {
		for a, sa := range c06Shapes {
			for b, sb := range c06Shapes {
				for _, c := range []int{(a + b) % len(c06Shapes), (a*5 + b + 3) % len(c06Shapes)} {
					idx++
					if !lib.Mine(idx) {
						continue
					}
					sc := c06Shapes[c]
					pairs := []lib.Pair{
						{K: "a", V: doc(sa.text, sb.text)},
						{K: "b", V: doc(sb.text, sc.text)},
						{K: "c", V: doc(sc.text, sa.text)},
						{K: "d", V: "not json"},
					}
					if (ti+a)%2 == 0 {
						pairs = pairs[:3]
					}
					c06Run(t, &c06Case{Query: tpl, Pairs: pairs}, true, "dynamic", "first-row="+sa.name)
				}
			}
		}
	}
}

// TestC06Arity: every function and aggregate called with 0 to 4 arguments of
// several kinds, as a select field (alone and next to the key, grouped and not)
// and inside WHERE: too few, too many or ill-typed arguments end in an error
// value, never in an index out of range.
func TestC06Arity(t *testing.T) {
	lib.Stats.Exhaustive = true
	fns := []string{"lower", "upper", "int", "float", "str", "is_int", "is_float", "substr", "split", "list", "float_list", "int_list",
		"flist", "ilist", "join", "len", "strlen", "json", "l2_distance", "cosine_distance",
		"count", "sum", "avg", "min", "max", "quantile", "group_concat", "json_arrayagg", "nosuchfn"}
	pools := [][]string{
		{"value", "key", "1", "'a'"},
		{"1", "0.5", "','", "value"},
		{"split(value, ',')", "2", "key", "list(1, 2)"},
		{"int(value)", "'x'", "json(value)", "true"},
	}
	idx := 0
	for _, fn := range fns {
		for n := 0; n <= 4; n++ {
			for _, pool := range pools {
				call := fn + "(" + strings.Join(pool[:n], ", ") + ")"
				for _, q := range []string{
					"select " + call + " where key != ''",
					"select key, " + call + " as f where key != '' group by key",
					"select key where str(" + call + ") != 'q'",
					"select " + call + " as f, count(1) where key != '' group by f order by f limit 3",
					// the call as the NAME of a call (the parser asks such a name
					// for its value before anything is checked)
					"select key, " + call + "(1) where key != ''",
					"remove " + call + "(key)",
				} {
					idx++
					if !lib.Mine(idx) {
						continue
					}
					c06Run(t, &c06Case{Query: q, Pairs: lib.FixedHostileStore(idx % 6)}, true, "arity", fmt.Sprintf("nargs=%d", n))
				}
				if n == 0 {
					break // the pools only differ in their arguments
				}
			}
		}
	}
}

// TestC06NameGraph: select lists whose fields name each other in every way a
// small pool of names allows - a name defined by itself, through another name,
// defined twice (the first definition counts), used in WHERE, ORDER BY and
// GROUP BY. Whatever the verdict on such a statement, it must come as a value:
// a definition cycle that slips through overflows the stack when it runs.
func TestC06NameGraph(t *testing.T) {
	names := []string{"a", "b", "c"}
	rapid.Check(t, func(rt *rapid.T) {
		n := rapid.IntRange(1, 5).Draw(rt, "nfields")
		name := func(l string) string { return rapid.SampledFrom(names).Draw(rt, l) }
		var fields []string
		for i := 0; i < n; i++ {
			var e string
			switch rapid.IntRange(0, 9).Draw(rt, "form") {
			case 0:
				e = "value"
			case 1:
				e = "int(value)"
			case 2:
				e = name("bare")
			case 3:
				e = "upper(" + name("arg") + ")"
			case 4:
				e = name("l") + " + 'x'"
			case 5:
				e = name("l") + " + 1"
			case 6:
				e = "str(" + name("l") + " + " + name("r") + ")"
			case 7:
				e = "count(1)"
			case 8:
				e = "list(" + name("l") + ", key)[0]"
			default:
				e = name("l") + " = 'x'"
			}
			fields = append(fields, e+" as "+name("def"))
		}
		q := "select " + strings.Join(fields, ", ") + " where key ^= 'a'"
		switch rapid.IntRange(0, 5).Draw(rt, "tail") {
		case 0:
			q += " & " + name("w") + " != 'q'"
		case 1:
			q += " order by " + name("o")
		case 2:
			q += " group by " + name("g")
		case 3:
			q += " & upper(" + name("w") + ") = 'A' order by " + name("o") + " desc limit 2"
		}
		c06Run(rt, &c06Case{Query: q, Pairs: lib.FixedHostileStore(rapid.IntRange(0, 5).Draw(rt, "store"))}, false, "name-graph")
	})
}

// ---- termination on chains of named fields --------------------------------------

// c06Chain builds `select <first> as a0, a0+a0 as a1, ..., a(n-1)+a(n-1) as an`
// (integers, so the values wrap around instead of growing): each field uses
// the previous name twice, a statement of a few hundred bytes with 2^n paths
// through its names.
func c06Chain(n int, prefix, suffix string) string {
	var sb strings.Builder
	sb.WriteString("select " + prefix + "strlen(key) as a0")
	for i := 1; i <= n; i++ {
		fmt.Fprintf(&sb, ", a%d+a%d as a%d", i-1, i-1, i)
	}
	sb.WriteString(" " + suffix)
	return sb.String()
}

// c06ParamChain: a chain of constant named fields that ends in the parameter
// of an aggregate function (`select 1.0 as a0, a0*a0 as a1, .., quantile(x, an)
// where .. group by a0, .., an`).
func c06ParamChain(first, step string, n int, aggr string) string {
	var sb strings.Builder
	sb.WriteString("select " + first + " as a0")
	groups := "a0"
	for i := 1; i <= n; i++ {
		prev := fmt.Sprintf("a%d", i-1)
		fmt.Fprintf(&sb, ", "+step+" as a%d", prev, prev, i)
		groups += fmt.Sprintf(", a%d", i)
	}
	fmt.Fprintf(&sb, ", "+aggr, n)
	sb.WriteString(" where key != '' group by " + groups)
	return sb.String()
}

// TestC06Chains: planning and executing such statements must terminate. The
// work is linear in the statement (well under a millisecond); the deadline of
// 20 s per statement is four orders of magnitude above that, and exponential
// behaviour passes it at depth 30 and beyond.
func TestC06Chains(t *testing.T) {
	lib.Stats.Exhaustive = true
	pairs := []lib.Pair{{K: "a", V: "1"}, {K: "ab", V: "2"}, {K: "abc", V: "3"}, {K: "b", V: "4"}}
	idx := 0
	for _, n := range []int{2, 6, 12, 20, 30, 40} {
		last := fmt.Sprintf("a%d", n)
		groups := "a0"
		for i := 1; i <= n; i++ {
			groups += fmt.Sprintf(", a%d", i)
		}
		for _, q := range []string{
			c06Chain(n, "", "where key != ''"),
			c06Chain(n, "", "where "+last+" >= 0 | key != ''"),
			c06Chain(n, "key, ", "where key != '' order by "+last+" desc limit 2"),
			c06Chain(n, "count(1) as c, ", "where "+last+" >= 0 | key != '' group by "+groups),
			c06Chain(n, "count(1) as c, ", "where key != '' group by "+groups+" order by c"),
			// the constant parameters of quantile and group_concat are
			// evaluated when the plan is built
			c06ParamChain("1.0", "%s*%s", n, "quantile(strlen(value), a%d)"),
			c06ParamChain("','", "substr(%s+%s, 0, 1)", n, "group_concat(value, a%d)"),
		} {
			idx++
			if !lib.Mine(idx) {
				continue
			}
			c := &c06Case{Query: q, Pairs: pairs}
			lib.Journal("C06", "c06", c)
			done := make(chan string, 1)
			go func() {
				msg, _, _ := checkC06(c)
				done <- msg
			}()
			var msg string
			select {
			case msg = <-done:
			case <-time.After(20 * time.Second):
				msg = fmt.Sprintf("planning and executing the %d-byte statement %q (a chain of %d named fields) did not terminate within 20 s", len(q), q, n)
			}
			lib.Stats.EnumCase(n >= 20, []string{"chain", fmt.Sprintf("chain-depth=%d", n)}, func() any { return map[string]any{"chain_depth": n, "bytes": len(q)} })
			if msg != "" {
				fail(t, "C06", "c06chain", msg, c)
			}
		}
	}
}

func init() {
	registerReplay("c06chain", func(c *c06Case) string {
		done := make(chan string, 1)
		go func() {
			msg, _, _ := checkC06(c)
			done <- msg
		}()
		select {
		case msg := <-done:
			return msg
		case <-time.After(20 * time.Second):
			return fmt.Sprintf("planning and executing the %d-byte statement %q did not terminate within 20 s", len(c.Query), c.Query)
		}
	})
}
