package checks

import (
	"encoding/json"
	"fmt"
	"os"
	"path/filepath"
	"testing"

	"verif/lib"
)

// TestMakeReplays (VERIF_MKREPLAYS=1) writes the regression replays of the
// defects that were repaired in /repo ("fixed:" lines of known-findings.txt).
// It is a maintenance helper, not a check.
func TestMakeReplays(t *testing.T) {
	if os.Getenv("VERIF_MKREPLAYS") == "" {
		t.Skip("maintenance helper")
	}
	write := func(prop, kind, name, msg string, c any) {
		raw, err := lib.EncodeCase(c)
		if err != nil {
			t.Fatal(err)
		}
		rf := lib.ReplayFile{Property: prop, Kind: kind, Message: msg, Case: raw}
		b, _ := json.MarshalIndent(rf, "", " ")
		dir := filepath.Join("..", "replays", prop)
		os.MkdirAll(dir, 0o755)
		if err := os.WriteFile(filepath.Join(dir, "fixed-"+name+".json"), b, 0o644); err != nil {
			t.Fatal(err)
		}
	}
	sel := func(w *lib.Node) *lib.Stmt { return &lib.Stmt{Kind: "select", Star: true, Where: w} }
	abc := []lib.Pair{{K: "a", V: "1"}, {K: "ab", V: "2"}, {K: "abc", V: "3"}, {K: "b", V: "4"}, {K: "ba", V: "5"}, {K: "c", V: "6"}}

	// C01 / C02: scan-range defects
	write("C01", "c01", "literal-left-gt", "'b' > key returned nothing", &c01Case{Stmt: sel(lib.Bin(">", lib.Str("b"), lib.Key())), Pairs: abc, Batch: 2})
	write("C01", "c01", "literal-left-prefix", "'abc' ^= key planned as prefix scan", &c01Case{Stmt: sel(lib.Bin("^=", lib.Str("abc"), lib.Key())), Pairs: abc, Batch: 2})
	write("C01", "c01", "in-duplicate", "key in ('a','a') returned the pair twice", &c01Case{Stmt: sel(lib.In(lib.Key(), lib.Str("a"), lib.Str("a"))), Pairs: abc, Batch: 2})
	write("C01", "c01", "union-disjoint", "key > 'b' | key < 'ab' planned Range['b','ab']", &c01Case{Stmt: sel(lib.Bin("|", lib.Bin(">", lib.Key(), lib.Str("b")), lib.Bin("<", lib.Key(), lib.Str("ab")))), Pairs: abc, Batch: 2})
	write("C01", "c01", "float-eq", "float(value) = 1.5 failed at run time", &c01Case{Stmt: sel(lib.Bin("=", lib.Call("float", lib.Value()), lib.Float("1.5"))), Pairs: []lib.Pair{{K: "a", V: "1.5"}, {K: "b", V: "2"}}, Batch: 2})
	write("C01", "c01", "fold-kind", "(0 + 0.5) = float(value) folded to integer 0", &c01Case{Stmt: sel(lib.Bin("=", lib.Bin("+", lib.Int(0), lib.Float("0.5")), lib.Call("float", lib.Value()))), Pairs: []lib.Pair{{K: "a", V: "0"}, {K: "b", V: "0.5"}}, Batch: 2})
	write("C01", "c01", "len-split", "len(split(value, ',')) refused", &c01Case{Stmt: sel(lib.Bin("=", lib.Call("len", lib.Call("split", lib.Value(), lib.Str(","))), lib.Int(2))), Pairs: []lib.Pair{{K: "a", V: "x,y"}, {K: "b", V: "x"}}, Batch: 2})

	write("C01", "c01", "prefix-range-nil-end", "prefix/range intersection with an unbounded end became MGET['']", &c01Case{Stmt: sel(lib.Bin("&", lib.Bin("&", lib.Bin("|", lib.Bin("&", lib.Bin("!=", lib.Key(), lib.Value()), lib.Bin(">", lib.Key(), lib.Str("-1a"))), lib.Bin("&", lib.Bin("=", lib.Str(""), lib.Key()), lib.Bin("=", lib.Str(""), lib.Key()))), lib.Bin("^=", lib.Key(), lib.Str(""))), lib.Bin("=", lib.Str("a"), lib.Key()))), Pairs: []lib.Pair{{K: "a", V: "-1"}}, Batch: 1})
	write("C02", "c02", "union-disjoint", "key > 'b' | key < 'ab'", &c02Case{Where: lib.Bin("|", lib.Bin(">", lib.Key(), lib.Str("b")), lib.Bin("<", lib.Key(), lib.Str("ab"))), MaxLit: 2})
	write("C02", "c02", "union-empty-start", "'a' < key | key between '' and 'a' became MGET['']", &c02Case{Where: lib.Bin("|", lib.Bin("<", lib.Str("a"), lib.Key()), lib.Between(lib.Key(), lib.Str(""), lib.Str("a"))), MaxLit: 1})
	write("C02", "c02", "between-or-lt", "key between 'ab' and 'ba' | key < 'a' planned Range['ab','a']", &c02Case{Where: lib.Bin("|", lib.Between(lib.Key(), lib.Str("ab"), lib.Str("ba")), lib.Bin("<", lib.Key(), lib.Str("a"))), MaxLit: 2})
	write("C02", "c02", "nil-end-prefix", "(key ^= '' | 'ba' > key) & key in ('', 'a') lost key a", &c02Case{Where: lib.Bin("&", lib.Bin("|", lib.Bin("^=", lib.Key(), lib.Str("")), lib.Bin(">", lib.Str("ba"), lib.Key())), lib.In(lib.Key(), lib.Str(""), lib.Str("a"))), MaxLit: 2})
	write("C02", "c02", "literal-left-lt", "'' < key planned EMPTY", &c02Case{Where: lib.Bin("<", lib.Str(""), lib.Key()), MaxLit: 1})
	write("C02", "c02", "prefix-range-nil-end", "(.. | '' = key) & key ^= '' & 'a' = key planned MGET['']", &c02Case{Where: lib.Bin("&", lib.Bin("&", lib.Bin("|", lib.Bin(">", lib.Key(), lib.Str("-1a")), lib.Bin("=", lib.Str(""), lib.Key())), lib.Bin("^=", lib.Key(), lib.Str(""))), lib.Bin("=", lib.Str("a"), lib.Key())), MaxLit: 3})

	// ---- later repairs ---------------------------------------------------------
	js := []lib.Pair{{K: "a", V: `{"a": 1}`}, {K: "b", V: `{"a": "x"}`}, {K: "c", V: `{"a": 2.5}`}}
	write("C06", "c06", "substr-panic", "substr(key, 2, 1) on a three byte key panicked", &c06Case{Query: "select substr(key, 2, 1) where key ^= 'a'", Pairs: abc})
	write("C06", "c06", "join-noargs-batch", "join() panicked in batch mode", &c06Case{Query: "select join() where key ^= 'a'", Pairs: abc})
	write("C06", "c06", "list-noargs-batch", "list() panicked in batch mode", &c06Case{Query: "select list() where key ^= 'a'", Pairs: abc})
	write("C06", "c06", "self-alias", "select upper(u) as u overflowed the stack", &c06Case{Query: "select upper(u) as u where key = 'a'", Pairs: abc})
	write("C06", "c06", "self-alias-arith", "select u + 1 as u overflowed the stack inside Parse", &c06Case{Query: "select u + 1 as u where key = 'a'", Pairs: abc})
	write("C06", "c06", "alias-cycle", "mutually recursive named fields", &c06Case{Query: "select upper(b) as a, lower(a) as b where key = 'a'", Pairs: abc})
	write("C06", "c06", "order-mixed-json", "ORDER BY over a JSON member of changing dynamic type panicked", &c06Case{Query: "select json(value)['a'] as j where key ^= '' order by j", Pairs: js})
	write("C06", "c06", "mget-alias-batch", "alias filter over point reads panicked in batch mode", &c06Case{Query: "select key, int(value) as n where key in ('a', 'ab', 'abc', 'b') & n > 1", Pairs: abc})
	write("C06", "c06", "render-long-trailing", "rendering a late error of a long query with 50 leading blanks panicked", &c06Case{Query: "                                                  " + "select key, key, key, key, key, key, key, key, key, key, key, key, key, key, key where key ^= 1", Pairs: abc})

	// ---- round-3 repairs ------------------------------------------------------
	write("C06", "c06", "quantile-negative", "quantile(int(value), 0 - 0.5) panicked when the result was read", &c06Case{Query: "select quantile(int(value), 0 - 0.5) where key ^= 'a'", Pairs: abc})
	aggName := &lib.Stmt{Kind: "select", Fields: []lib.SelField{{E: lib.Call("strlen", lib.Key()), Alias: "g1"}, {E: lib.Call("count", lib.Int(1)), Alias: "a1"}, {E: lib.Bin("+", lib.Ref("a1", lib.TyInt), lib.Call("sum", lib.Call("int", lib.Value()))), Alias: "a2"}}, Where: lib.Bin("!=", lib.Key(), lib.Str("zz")), Group: []string{"g1"}}
	write("C05", "c05", "aggregate-name-stale", "count(1) as a1, a1 + sum(int(value)) used the previous group's a1", &c05Case{Stmt: aggName, Pairs: abc, Batch: 2})
	aggFwd := &lib.Stmt{Kind: "select", Fields: []lib.SelField{{E: lib.Bin("+", lib.Ref("a1", lib.TyInt), lib.Call("sum", lib.Call("int", lib.Value())))}, {E: lib.Call("count", lib.Int(1)), Alias: "a1"}}, Where: lib.Bin("!=", lib.Key(), lib.Str("zz"))}
	write("C05", "c05", "aggregate-name-forward", "a1 + sum(int(value)), count(1) as a1 failed with Cannot find function count", &c05Case{Stmt: aggFwd, Pairs: abc, Batch: 2})
	dupName := &lib.Stmt{Kind: "select", Fields: []lib.SelField{{E: lib.Key(), Alias: "t1"}, {E: lib.Value(), Alias: "t1"}}, Where: lib.Bin("!=", lib.Ref("t1", lib.TyText), lib.Str("x"))}
	write("C05", "c05", "repeated-name", "key as t1, value as t1 where t1 != 'x' returned the key in both columns", &c05Case{Stmt: dupName, Pairs: abc, Batch: 2})

	// ---- round-4 repairs ------------------------------------------------------
	mixed := []lib.Pair{{K: "a", V: "2"}, {K: "b", V: "2.5"}, {K: "c", V: "0.5"}}
	write("C09", "c09", "max-mixed", "max over 2, 2.5, 0.5 was 2 (floats compared by their integer part against an integer extreme)", &c09Case{Stmt: &lib.Stmt{Kind: "select", Fields: []lib.SelField{{E: lib.Call("max", lib.Value())}, {E: lib.Call("min", lib.Value())}}, Where: lib.Bin("!=", lib.Key(), lib.Str("zz"))}, Pairs: mixed, Batch: 2})
	close6 := []lib.Pair{{K: "a", V: "0.1234561"}, {K: "b", V: "0.1234562"}, {K: "c", V: "0.1234561"}}
	write("C09", "c09", "float-group-six-decimals", "group by float(value) merged 0.1234561 and 0.1234562", &c09Case{Stmt: &lib.Stmt{Kind: "select", Fields: []lib.SelField{{E: lib.Call("float", lib.Value()), Alias: "g1"}, {E: lib.Call("count", lib.Int(1))}}, Where: lib.Bin("!=", lib.Key(), lib.Str("zz")), Group: []string{"g1"}}, Pairs: close6, Batch: 2})
	write("C16", "c16", "offset-after-tab", "a word behind a tab reported the offset of the tab", &c16Case{Query: "a \tkey"})
	write("C16", "c16", "offset-after-newline", "a word behind a line end reported the offset of the line end", &c16Case{Query: "select *\nwhere key = 'a'"})
	write("C14", "c14matrix", "bool-in-list", "(key = 'a') in (true) was accepted and failed on the first row", &c14MatrixCase{E: lib.In(lib.Bin("=", lib.Key(), lib.Str("a")), lib.Bool(true), lib.Bool(true)), Where: true})
	write("C14", "c14matrix", "text-in-int-list-batch", "'a' in list(1, 2) failed in batch mode only", &c14MatrixCase{E: lib.InList(lib.Str("a"), lib.Call("list", lib.Int(1), lib.Int(2)))})
	write("C14", "c14matrix", "list-equals-list", "split(value, ',') = split(value, ',') was accepted and failed on the first row", &c14MatrixCase{E: lib.Bin("=", lib.Call("split", lib.Value(), lib.Str(",")), lib.Call("split", lib.Value(), lib.Str(","))), Where: true})

	write("C09", "c09", "simplified-aggregate-field", "select (count(1) > 100) | (1 = 1) returned one row per pair", &c09Case{Stmt: &lib.Stmt{Kind: "select", Fields: []lib.SelField{{E: lib.Bin("|", lib.Bin(">", lib.Call("count", lib.Int(1)), lib.Int(100)), lib.Bin("=", lib.Int(1), lib.Int(1)))}}, Where: lib.Bin("!=", lib.Key(), lib.Str("zz"))}, Pairs: abc, Batch: 2})
	collide := &lib.Stmt{Kind: "select", Fields: []lib.SelField{{E: lib.Key()}, {E: lib.Call("int", lib.Value()), Alias: "a-k"}, {E: lib.Bin("*", lib.Call("int", lib.Value()), lib.Int(10)), Alias: "a"}}, Where: lib.Bin("&", lib.Bin(">", lib.Ref("a-k", lib.TyInt), lib.Int(100)), lib.Bin(">", lib.Ref("a", lib.TyInt), lib.Int(100)))}
	write("C05", "c05", "name-key-collision", "names a-k and a over keys 1 and k-1 shared one chunk cache entry", &c05Case{Stmt: collide, Pairs: []lib.Pair{{K: "1", V: "1"}, {K: "2", V: "2"}, {K: "k-1", V: "300"}, {K: "k-2", V: "400"}}, Batch: 2})

	// ---- repairs prompted by the audit round ----------------------------------------
	dynPairs := []lib.Pair{{K: "a1", V: `{"m": "x", "n": "x"}`}, {K: "a2", V: `{"m": "y", "n": "z"}`}, {K: "a3", V: `{"m": 1, "n": 1}`}, {K: "a4", V: `{"m": 2, "n": 3}`}}
	write("C05", "c05dyn", "equal-kind-from-first-row", "cache off: batch = over a chunk of text and number rows failed, cache on it answered", &c05DynCase{Query: "select key, json(value)['m'] = json(value)['n'] as same where same & key ^= 'a'", Pairs: dynPairs, Batch: 2})
	write("C06", "c06chain", "name-chain-planning", "a chain of 40 named fields took 2^40 steps to plan", &c06Case{Query: c06Chain(40, "", "where key != ''"), Pairs: abc})
	chainGroups := "a0"
	for i := 1; i <= 30; i++ {
		chainGroups += fmt.Sprintf(", a%d", i)
	}
	write("C06", "c06chain", "name-chain-row-aggregation", "row-at-a-time aggregation re-evaluated a chain of 30 named fields 2^30 times per pair", &c06Case{Query: c06Chain(30, "count(1) as c, ", "where a30 >= 0 | key != '' group by "+chainGroups), Pairs: abc})
	write("C04", "c04", "reassociated-floats", "(float(value) + 0.1) + 0.2 was rewritten to float(value) + 0.30000000000000004", &c04Case{E: lib.Bin("+", lib.Bin("+", lib.Call("float", lib.Value()), lib.Float("0.1")), lib.Float("0.2")), W: lib.Bin("=", lib.Int(1), lib.Int(1)), Pairs: []lib.Pair{{K: "a", V: "2"}, {K: "b", V: "3"}}})
	bare := &lib.Stmt{Kind: "select", Fields: []lib.SelField{{E: lib.Key(), Alias: "k"}, {E: lib.Ref("k", lib.TyText), Alias: "k2"}}, Where: lib.Bin("=", lib.Call("upper", lib.Ref("k2", lib.TyText)), lib.Str("AB"))}
	write("C05", "c05", "field-that-is-only-a-name", "select key as k, k as k2 where upper(k2) = 'AB' returned nothing: k2 was the text k", &c05Case{Stmt: bare, Pairs: abc, Batch: 2})
	write("C10", "c10", "list-first-element-numeric", "list(value, key)[1] over ('kk', '2.5') was the float 0", &c10Case{E: lib.Index(lib.Call("list", lib.Value(), lib.Key()), 1), K: "kk", V: "2.5", Fn: "list(text)[n]", Form: "row"})
	nanPairs := []lib.Pair{{K: "a1", V: "2"}, {K: "a2", V: "NaN"}, {K: "a3", V: "1"}, {K: "b1", V: "5"}, {K: "b2", V: "4"}, {K: "c1", V: "NaN"}, {K: "c2", V: "7"}, {K: "d1", V: "6"}, {K: "e1", V: "0"}}
	write("C07", "c07", "nan-scrambles-order", "order by float(value) with two NaN rows returned 1, 5, 6, 7, NaN, 4, 0, 2, NaN", &c07Case{Stmt: &lib.Stmt{Kind: "select", Fields: []lib.SelField{{E: lib.Key()}, {E: lib.Call("float", lib.Value()), Alias: "f"}}, Where: lib.Bin(">=", lib.Key(), lib.Str("a")), Order: []lib.OrderKey{{Name: "f"}}}, Pairs: nanPairs, Batch: 32})
	groupVal := &lib.Stmt{Kind: "select", Fields: []lib.SelField{{E: lib.Key()}, {E: lib.Bin("+", lib.Call("strlen", lib.Key()), lib.Call("count", lib.Int(1))), Alias: "x"}}, Where: lib.Bin("!=", lib.Key(), lib.Str("zz")), Group: []string{"key"}}
	write("C09", "c09", "group-value-in-aggregate-field", "select key, strlen(key) + count(1) .. group by key evaluated strlen(key) on an empty pair", &c09Case{Stmt: groupVal, Pairs: abc, Batch: 2})
	write("C09", "c09", "aggregate-inside-scalar-call", "select str(count(1)) failed with Cannot find function count when it ran", &c09Case{Stmt: &lib.Stmt{Kind: "select", Fields: []lib.SelField{{E: lib.Call("str", lib.Call("count", lib.Int(1)))}}, Where: lib.Bin("!=", lib.Key(), lib.Str("zz"))}, Pairs: abc, Batch: 2})
	write("C06", "c06", "buildexecutor-non-select", "BuildExecutor(\"put ('k', 'v')\") panicked", &c06Case{Query: "put ('k', 'v')", Pairs: abc})

	// ---- second audit wave ------------------------------------------------------------
	write("C14", "c14", "fault-in-second-subscript", "json(value)['a'][key ^= 1] was accepted and failed on the first row", &c14Case{Raw: "select key where json(value)['a'][key ^= 1] = 'x'", Mutant: true, Fault: "fault-in-second-subscript", Pairs: abc})
	write("C14", "c14", "aggregate-in-aggregate-argument", "select count(1) as c, sum(c) was accepted and failed with Cannot find function count", &c14Case{Raw: "select count(1) as c, sum(c) where key ^= 'a'", Mutant: true, Fault: "aggregate-inside-aggregate-argument", Pairs: abc})
	write("C14", "c14", "key-as-put-key", "put (key, 'v') was accepted and wrote the empty key", &c14Case{Raw: "put (key, 'v')", Mutant: true, Fault: "key-as-put-key", Pairs: abc})
	write("C14", "c14", "boolean-literal-operand", "key = 'a' & true was refused", &c14Case{Raw: "select * where key = 'a' & true", Pairs: abc})
	write("C14", "c14", "not-operand-of-comparison", "!(key = 'a') = false was refused", &c14Case{Raw: "select * where !(key = 'a') = false", Pairs: abc})
	write("C15", "c15name", "backquoted-name-printed-bare", "str(`key`) = 'key' printed as (str(key) = 'key')", &c15NameCase{Query: "select * where str(`key`) = 'key'", Pairs: []lib.Pair{{K: "a", V: "1"}, {K: "key", V: "2"}}})
	write("C16", "c16", "tab-between-words", "where\\tkey was one name", &c16Case{Query: "where\tkey = 'a'"})
	write("C16", "c16", "newline-between-words", "select *\\nwhere\\nkey was lexed with where\\nkey as one name", &c16Case{Query: "select *\nwhere\nkey = 'a'"})
	write("C16", "c16", "non-utf8-byte-in-word", "a\\xff was turned into a + U+FFFD (four bytes for two)", &c16Case{Query: "a\xff = 1"})

	// ---- follow-ups found by the review of the repair commits ---------------------------
	fwd := &lib.Stmt{Kind: "select", Fields: []lib.SelField{{E: lib.Ref("m", lib.TyInt), Alias: "p"}, {E: lib.Ref("n", lib.TyInt), Alias: "m"}, {E: lib.Call("int", lib.Value()), Alias: "n"}}, Where: lib.Bin("^=", lib.Key(), lib.Str("a"))}
	write("C05", "c05", "name-chain-listed-backwards", "select m as p, n as m, int(value) as n showed the text n in column p", &c05Case{Stmt: fwd, Pairs: abc, Batch: 2})

	write("C09", "c09dyn", "number-and-text-one-group", "group by json(value)['n'] put the number 1 and the text \"1\" into one group", &c09DynCase{Pairs: []lib.Pair{{K: "k0", V: `{"n": 1}`}, {K: "k1", V: `{"n": "1"}`}, {K: "k2", V: `{"n": 1.0}`}}, Batch: 2})
	write("C09", "c09", "simplified-aggregate-inside-call", "select str(count(1) > 0 | 1 = 1) returned one row per pair", &c09Case{Stmt: &lib.Stmt{Kind: "select", Fields: []lib.SelField{{E: lib.Call("str", lib.Bin("+", lib.Call("count", lib.Int(1)), lib.Int(0)))}, {E: lib.Bin("|", lib.Bin(">", lib.Call("count", lib.Int(1)), lib.Int(100)), lib.Bin("=", lib.Int(1), lib.Int(1)))}}, Where: lib.Bin("!=", lib.Key(), lib.Str("zz"))}, Pairs: abc, Batch: 2})

	// ---- third audit wave ------------------------------------------------------------------
	write("C14", "c14matrix", "list-field-beside-aggregate", "select split(value, ',') as e1, count(1) .. group by key was accepted and failed on the first pair", &c14MatrixCase{E: lib.Call("split", lib.Value(), lib.Str(",")), Aggr: true})
	write("C14", "c14", "bare-name-beside-aggregate", "select nobody as l, count(1) .. group by key was refused by the repair of list fields beside aggregates", &c14Case{Raw: "select nobody as l, count(1) where key ^= 'a' group by key", Pairs: abc})
	jm := func(m string) *lib.Node {
		return lib.Field(lib.Call("json", lib.Str(`{"a": null, "o": {"x": "y"}}`)), m)
	}
	write("C12", "c12", "remove-null-json-member", "remove json('{\"a\": null}')['a'] deleted the key <nil>", &c12Case{Stmt: &lib.Stmt{Kind: "remove", Keys: []*lib.Node{jm("a")}}, Pairs: []lib.Pair{{K: "<nil>", V: "precious"}, {K: "x", V: "1"}}, Polls: "N", Batch: 32})
	write("C12", "c12", "put-object-json-member", "put ('a', '1'), ('k', json(..)['o']) wrote a = 1 and k = ''", &c12Case{Stmt: &lib.Stmt{Kind: "put", Pairs: [][2]*lib.Node{{lib.Str("a"), lib.Str("1")}, {lib.Str("k"), jm("o")}}}, Pairs: []lib.Pair{{K: "k", V: "old"}}, Polls: "BN", Batch: 32})
	write("C14", "c14", "aggregate-through-group-by", "select count(1) as c, key .. group by c was accepted and failed with Cannot find function count", &c14Case{Raw: "select count(1) as c, key where key ^= 'a' group by c", Mutant: true, Fault: "aggregate-reached-through-group-by", Pairs: abc})
	write("C14", "c14", "subscript-behind-list-element", "int_list(1,2)[0]['x'] was accepted and failed on the first row", &c14Case{Raw: "select int_list(1,2)[0]['x'] where key = 'a'", Mutant: true, Fault: "subscript-behind-list-element", Pairs: abc})
	write("C14", "c14", "where-is-a-boolean-name", "select key, is_int(value) as b where b was refused", &c14Case{Raw: "select key, is_int(value) as b where b", Pairs: abc})
	write("C10", "c10", "list-of-numeric-texts", "list('007', '1')[0] was the integer 7", &c10Case{E: lib.Index(lib.Call("list", lib.Str("007"), lib.Str("1")), 0), K: "k", V: "unused", Fn: "list(text)[n]", Form: "const"})
	write("C01", "c01", "in-list-of-numeric-texts", "value in list('1', '2') matched nothing", &c01Case{Stmt: sel(lib.InList(lib.Value(), lib.Call("list", lib.Str("1"), lib.Str("2")))), Pairs: abc, Batch: 2})
	write("C09", "c09dyn", "null-and-empty-text-one-group", "a null JSON member and the empty text shared a group", &c09DynCase{Pairs: []lib.Pair{{K: "k0", V: `{"n": null}`}, {K: "k1", V: `{"n": ""}`}, {K: "k2", V: `{"n": "x"}`}}, Batch: 2})

	write("C06", "c06chain", "name-chain-aggregate-parameter", "quantile(x, a30) behind a chain of 30 named constants took 2^30 steps to plan", &c06Case{Query: c06ParamChain("1.0", "%s*%s", 30, "quantile(strlen(value), a%d)"), Pairs: abc})

	write("C03", "c03", "limit-skip-boundary", "limit 2,2 with batch size 2 returned rows 0-1", &c03Case{Stmt: &lib.Stmt{Kind: "select", Star: true, Where: lib.Bin("!=", lib.Key(), lib.Str("zz")), Lim: &lib.Limit{Start: 2, Count: 2, Two: true}}, Pairs: abc, Batch: 2, Batch2: 32})
	write("C03", "c03", "in-split-row", "'1' in split(value, ',') failed row at a time only", &c03Case{Stmt: &lib.Stmt{Kind: "select", Fields: []lib.SelField{{E: lib.Key()}, {E: lib.Call("split", lib.Value(), lib.Str(","))}}, Where: lib.InList(lib.Str("1"), lib.Call("split", lib.Value(), lib.Str(",")))}, Pairs: abc, Batch: 2, Batch2: 32})
	write("C03", "c03", "list-index-row", "list(1,2,3)[1] failed row at a time only", &c03Case{Stmt: &lib.Stmt{Kind: "select", Fields: []lib.SelField{{E: lib.Index(lib.Call("list", lib.Int(1), lib.Int(2), lib.Int(3)), 1)}}, Where: lib.Bin("^=", lib.Key(), lib.Str("a"))}, Pairs: abc, Batch: 2, Batch2: 32})
	write("C03", "c03", "list-first-row-typing", "list(value) typed by the first row of the chunk in batch mode", &c03Case{Stmt: &lib.Stmt{Kind: "select", Fields: []lib.SelField{{E: lib.Call("list", lib.Value())}}, Where: lib.Bin("!=", lib.Key(), lib.Str("zz"))}, Pairs: []lib.Pair{{K: "a", V: "1"}, {K: "b", V: "2.5"}, {K: "c", V: "3"}}, Batch: 3, Batch2: 1})

	aliasN := &lib.Stmt{Kind: "select", Fields: []lib.SelField{{E: lib.Key()}, {E: lib.Call("int", lib.Value()), Alias: "n"}}, Where: lib.Bin(">", lib.Ref("n", lib.TyInt), lib.Int(2))}
	write("C05", "c05", "row-cache-stale", "select key, int(value) as n where n > 2 returned nothing row at a time", &c05Case{Stmt: aliasN, Pairs: abc, Batch: 2})
	joinU := &lib.Stmt{Kind: "select", Fields: []lib.SelField{{E: lib.Key()}, {E: lib.Call("upper", lib.Key()), Alias: "u"}, {E: lib.Call("join", lib.Str(","), lib.Ref("u", lib.TyText), lib.Key()), Alias: "j"}}, Where: lib.Bin("^=", lib.Key(), lib.Str("a"))}
	write("C05", "c05", "join-alias-batch", "join(',', u, key) saw the first row's u in batch mode", &c05Case{Stmt: joinU, Pairs: abc, Batch: 32})
	chain := &lib.Stmt{Kind: "select", Fields: []lib.SelField{{E: lib.Value(), Alias: "v"}, {E: lib.Bin("+", lib.Ref("v", lib.TyText), lib.Str("x")), Alias: "w"}}, Where: lib.Bin(">", lib.Ref("v", lib.TyText), lib.Str("1"))}
	write("C05", "c05", "chunk-cache-unfiltered", "a field using another named field picked up the unfiltered chunk column", &c05Case{Stmt: chain, Pairs: abc, Batch: 32})
	notN := &lib.Stmt{Kind: "select", Fields: []lib.SelField{{E: lib.Call("int", lib.Value()), Alias: "n"}}, Where: lib.Not(lib.Bin(">", lib.Ref("n", lib.TyInt), lib.Int(2)))}
	write("C05", "c05", "alias-under-not", "select int(value) as n where !(n > 2) failed with a type error", &c05Case{Stmt: notN, Pairs: abc, Batch: 2})
	chainIn := &lib.Stmt{Kind: "select", Fields: []lib.SelField{{E: lib.Value(), Alias: "v"}, {E: lib.Bin("+", lib.Ref("v", lib.TyText), lib.Str("")), Alias: "w"}}, Where: lib.In(lib.Ref("w", lib.TyText), lib.Str("1"), lib.Str("3"))}
	write("C14", "c14", "alias-chain-typed-as-number", "select value as v, v + '' as w where w in ('1','3') was refused", &c14Case{Stmt: chainIn, Pairs: abc})

	ordW := &lib.Stmt{Kind: "select", Fields: []lib.SelField{{E: lib.Value(), Alias: "v"}, {E: lib.Bin("+", lib.Ref("v", lib.TyText), lib.Str("x")), Alias: "w"}}, Where: lib.Bin("!=", lib.Key(), lib.Str("zz")), Order: []lib.OrderKey{{Name: "w"}}}
	write("C07", "c07", "order-by-derived-text", "order by w (w = v + 'x') was not sorted", &c07Case{Stmt: ordW, Pairs: []lib.Pair{{K: "a", V: "10"}, {K: "b", V: "9"}, {K: "c", V: "100"}}, Batch: 2})
	sumMixed := &lib.Stmt{Kind: "select", Fields: []lib.SelField{{E: lib.Key(), Alias: "g1"}, {E: lib.Call("sum", lib.Value()), Alias: "s"}}, Where: lib.Bin("!=", lib.Key(), lib.Str("zz")), Group: []string{"g1"}, Order: []lib.OrderKey{{Name: "s", Dir: "desc"}}}
	write("C07", "c07", "order-by-sum", "order by sum(value), an integer in one group and a float in another, panicked", &c07Case{Stmt: sumMixed, Pairs: []lib.Pair{{K: "a", V: "1"}, {K: "b", V: "2.5"}, {K: "c", V: "3"}}, Batch: 2})

	write("C08", "c08", "skip-equals-batch-plain", "limit b, n with the offset equal to the child batch", &c08Case{B: 1, R: 1, S: 1, N: 1, Kind: "plain", Mode: "batch", Two: true})
	write("C08", "c08", "skip-equals-batch-aggr", "limit pushed into the aggregate node", &c08Case{B: 2, R: 6, S: 2, N: 2, Kind: "aggr", Mode: "batch", Two: true})
	write("C08", "c08", "skip-equals-batch-delete", "delete ... limit b, n", &c08Case{B: 1, R: 1, S: 1, N: 1, Kind: "delete", Mode: "row", Two: true, Gap: 1})

	grp := &lib.Stmt{Kind: "select", Fields: []lib.SelField{{E: lib.Key()}, {E: lib.Value()}, {E: lib.Call("count", lib.Int(1))}}, Where: lib.Bin("=", lib.Int(1), lib.Int(1)), Group: []string{"key", "value"}}
	write("C09", "c09", "group-key-collision", "groups ('a','bc') and ('ab','c') merged", &c09Case{Stmt: grp, Pairs: []lib.Pair{{K: "a", V: "bc"}, {K: "ab", V: "c"}}, Batch: 32})

	write("C10", "c10", "len-json-array", "len(json(value)['arr']) was refused", &c10Case{E: lib.Call("len", lib.Field(lib.Call("json", lib.Value()), "arr")), K: "k", V: `{"arr": [1, 2, 3]}`, Fn: "len(json[k])", Form: "row"})
	write("C10", "c10", "list-text", "list('a','b')[0] was the float 0", &c10Case{E: lib.Index(lib.Call("list", lib.Str("a"), lib.Str("b")), 0), K: "k", V: "unused", Fn: "list(text)[n]", Form: "const"})
	write("C10", "c10", "substr-end", "substr(value, 2, 5) was cut at len-start", &c10Case{E: lib.Call("substr", lib.Value(), lib.Int(2), lib.Int(5)), K: "k", V: "abcdef", Fn: "substr", Form: "row"})

	write("C11", "c11", "delete-limit-boundary", "delete ... limit 2,2 at batch size 2 removed the wrong pairs", &c11Case{Stmt: &lib.Stmt{Kind: "delete", Where: lib.Bin("!=", lib.Key(), lib.Str("zz")), Lim: &lib.Limit{Start: 2, Count: 2, Two: true}}, Pairs: abc, Batch: 2, Polls: "B"})

	mk14 := func(w *lib.Node) *lib.Stmt { return &lib.Stmt{Kind: "select", Star: true, Where: w} }
	write("C14", "c14", "fault-under-not", "!(key ^= 1) was accepted", &c14Case{Stmt: mk14(lib.Not(lib.Bin("^=", lib.Key(), lib.Int(1)))), Pairs: abc, Mutant: true, Fault: "number-operand-of-^=@not"})
	write("C14", "c14", "kw-and-non-boolean", "key and value was accepted", &c14Case{Stmt: mk14(lib.Bin("and", lib.Call("upper", lib.Key()), lib.Call("lower", lib.Value()))), Pairs: abc, Mutant: true, Fault: "non-boolean-operand-of-and"})
	write("C14", "c14", "unknown-function-field", "unknown function in a select field was found at execution only", &c14Case{Stmt: &lib.Stmt{Kind: "select", Fields: []lib.SelField{{E: lib.Call("nosuchfn", lib.Key())}}, Where: lib.Bin("=", lib.Key(), lib.Str("a"))}, Pairs: abc, Mutant: true, Fault: "unknown-function@select-field"})
	write("C14", "c14", "arity-field", "upper(key, key) in a select field was found at execution only", &c14Case{Stmt: &lib.Stmt{Kind: "select", Fields: []lib.SelField{{E: lib.Call("upper", lib.Key(), lib.Key())}}, Where: lib.Bin("=", lib.Key(), lib.Str("a"))}, Pairs: abc, Mutant: true, Fault: "arity@select-field"})
	write("C14", "c14", "delete-non-boolean", "delete where strlen(key) was accepted", &c14Case{Stmt: &lib.Stmt{Kind: "delete", Where: lib.Call("strlen", lib.Key())}, Pairs: abc, Mutant: true, Fault: "non-boolean-where"})
	write("C14", "c14", "kw-and-not", "a and !b was refused", &c14Case{Stmt: mk14(lib.Bin("and", lib.Bin("=", lib.Key(), lib.Str("a")), lib.Not(lib.Bin("~=", lib.Key(), lib.Str("^b"))))), Pairs: abc})
	write("C14", "c14", "float-eq", "float(value) = 1.5 accepted but failed with an operand-type error", &c14Case{Stmt: mk14(lib.Bin("=", lib.Call("float", lib.Value()), lib.Float("1.5"))), Pairs: abc})

	write("C17", "c17", "leading-blanks-caret", "leading blanks shifted the caret", &c17Case{Query: "      select * where key ^= 1", Pairs: abc, PadMode: 0})
	write("C17", "c17", "long-trailing-blanks", "late position in a long query with 50 leading blanks panicked", &c17Case{Query: "                                                  " + "select key, key, key, key, key, key, key, key, key, key, key, key, key, key, key where key ^= 1", Pairs: abc, PadMode: 0})

	write("C18", "c18", "batch-reads-two-beyond", "a prefix scan drained with Batch read two keys past its region", &c18Case{Conj: []*lib.Node{lib.Bin("^=", lib.Key(), lib.Str("ab"))}, AndOp: "&", Pairs: append(append([]lib.Pair{}, abc...), lib.Pair{K: "bb", V: "7"}, lib.Pair{K: "bc", V: "8"}), Mode: "batch", Batch: 32})
}
