package checks

import (
	"encoding/json"
	"os"
	"path/filepath"
	"testing"

	"verif/lib"
)

// TestMakeReplays (VERIF_MKREPLAYS=1) writes the regression replays of the
// defects that were repaired in /repo ("fixed:" lines of known-findings.txt).
// It is a maintenance helper, not a check.
func TestMakeReplays(t *testing.T) {
	if os.Getenv("VERIF_MKREPLAYS") == "" {
		t.Skip("maintenance helper")
	}
	write := func(prop, kind, name, msg string, c any) {
		raw, err := json.Marshal(c)
		if err != nil {
			t.Fatal(err)
		}
		rf := lib.ReplayFile{Property: prop, Kind: kind, Message: msg, Case: raw}
		b, _ := json.MarshalIndent(rf, "", " ")
		dir := filepath.Join("..", "replays", prop)
		os.MkdirAll(dir, 0o755)
		if err := os.WriteFile(filepath.Join(dir, "fixed-"+name+".json"), b, 0o644); err != nil {
			t.Fatal(err)
		}
	}
	sel := func(w *lib.Node) *lib.Stmt { return &lib.Stmt{Kind: "select", Star: true, Where: w} }
	abc := []lib.Pair{{K: "a", V: "1"}, {K: "ab", V: "2"}, {K: "abc", V: "3"}, {K: "b", V: "4"}, {K: "ba", V: "5"}, {K: "c", V: "6"}}

	// C01 / C02: scan-range defects
	write("C01", "c01", "literal-left-gt", "'b' > key returned nothing", &c01Case{Stmt: sel(lib.Bin(">", lib.Str("b"), lib.Key())), Pairs: abc, Batch: 2})
	write("C01", "c01", "literal-left-prefix", "'abc' ^= key planned as prefix scan", &c01Case{Stmt: sel(lib.Bin("^=", lib.Str("abc"), lib.Key())), Pairs: abc, Batch: 2})
	write("C01", "c01", "in-duplicate", "key in ('a','a') returned the pair twice", &c01Case{Stmt: sel(lib.In(lib.Key(), lib.Str("a"), lib.Str("a"))), Pairs: abc, Batch: 2})
	write("C01", "c01", "union-disjoint", "key > 'b' | key < 'ab' planned Range['b','ab']", &c01Case{Stmt: sel(lib.Bin("|", lib.Bin(">", lib.Key(), lib.Str("b")), lib.Bin("<", lib.Key(), lib.Str("ab")))), Pairs: abc, Batch: 2})
	write("C01", "c01", "float-eq", "float(value) = 1.5 failed at run time", &c01Case{Stmt: sel(lib.Bin("=", lib.Call("float", lib.Value()), lib.Float("1.5"))), Pairs: []lib.Pair{{K: "a", V: "1.5"}, {K: "b", V: "2"}}, Batch: 2})
	write("C01", "c01", "fold-kind", "(0 + 0.5) = float(value) folded to integer 0", &c01Case{Stmt: sel(lib.Bin("=", lib.Bin("+", lib.Int(0), lib.Float("0.5")), lib.Call("float", lib.Value()))), Pairs: []lib.Pair{{K: "a", V: "0"}, {K: "b", V: "0.5"}}, Batch: 2})
	write("C01", "c01", "len-split", "len(split(value, ',')) refused", &c01Case{Stmt: sel(lib.Bin("=", lib.Call("len", lib.Call("split", lib.Value(), lib.Str(","))), lib.Int(2))), Pairs: []lib.Pair{{K: "a", V: "x,y"}, {K: "b", V: "x"}}, Batch: 2})
	write("C01", "c01", "kw-and-not", "a and !b rejected", &c01Case{Stmt: sel(lib.Bin("and", lib.Bin("=", lib.Key(), lib.Str("a")), lib.Not(lib.Bin("~=", lib.Key(), lib.Str("^b"))))), Pairs: abc, Batch: 2})

	write("C02", "c02", "union-disjoint", "key > 'b' | key < 'ab'", &c02Case{Where: lib.Bin("|", lib.Bin(">", lib.Key(), lib.Str("b")), lib.Bin("<", lib.Key(), lib.Str("ab"))), MaxLit: 2})
	write("C02", "c02", "union-empty-start", "'a' < key | key between '' and 'a' became MGET['']", &c02Case{Where: lib.Bin("|", lib.Bin("<", lib.Str("a"), lib.Key()), lib.Between(lib.Key(), lib.Str(""), lib.Str("a"))), MaxLit: 1})
	write("C02", "c02", "between-or-lt", "key between 'ab' and 'ba' | key < 'a' planned Range['ab','a']", &c02Case{Where: lib.Bin("|", lib.Between(lib.Key(), lib.Str("ab"), lib.Str("ba")), lib.Bin("<", lib.Key(), lib.Str("a"))), MaxLit: 2})
	write("C02", "c02", "nil-end-prefix", "(key ^= '' | 'ba' > key) & key in ('', 'a') lost key a", &c02Case{Where: lib.Bin("&", lib.Bin("|", lib.Bin("^=", lib.Key(), lib.Str("")), lib.Bin(">", lib.Str("ba"), lib.Key())), lib.In(lib.Key(), lib.Str(""), lib.Str("a"))), MaxLit: 2})
	write("C02", "c02", "literal-left-lt", "'' < key planned EMPTY", &c02Case{Where: lib.Bin("<", lib.Str(""), lib.Key()), MaxLit: 1})
	write("C02", "c02", "prefix-and-lower", "key ^= '' & key >= 'a' became MGET['']", &c02Case{Where: lib.Bin("&", lib.Bin("^=", lib.Key(), lib.Str("")), lib.Bin(">=", lib.Key(), lib.Str("a"))), MaxLit: 1})
}
