package checks

import (
	"fmt"
	"math"
	"testing"

	"pgregory.net/rapid"

	"verif/lib"
)

// C08 — LIMIT returns exactly the requested slice of the unlimited result.

type c08Case struct {
	B    int    `json:"b"`    // batch size
	R    int    `json:"r"`    // size of the unlimited result
	S    int    `json:"s"`    // offset
	N    int    `json:"n"`    // count
	Kind string `json:"kind"` // plain ordered ties aggr aggr-ordered delete
	Mode string `json:"mode"`
	Two  bool   `json:"two"` // spelled `limit s, n` (false: `limit n`, s must be 0)
	// Gap: pattern of non-matching pairs interleaved with the matching ones
	Gap   int    `json:"gap"`
	Query string `json:"query"`
}

func init() { registerReplay("c08", func(c *c08Case) string { m, _, _ := checkC08(c); return m }) }

// c08Store: r matching pairs (value y0/y1/y2) interleaved with non-matching
// ones so that the filtered child chunks have varying sizes.
func c08Store(r, gap int) []lib.Pair {
	var ps []lib.Pair
	ps = append(ps, lib.Pair{K: "a0", V: "n"})
	for i := 0; i < r; i++ {
		ps = append(ps, lib.Pair{K: fmt.Sprintf("m%03d", i), V: fmt.Sprintf("y%d", i%3)})
		if gap > 0 && i%gap == gap-1 {
			ps = append(ps, lib.Pair{K: fmt.Sprintf("m%03dx", i), V: "n"})
		}
		if gap == 2 && i%5 == 0 {
			ps = append(ps, lib.Pair{K: fmt.Sprintf("m%03dy", i), V: "n"}, lib.Pair{K: fmt.Sprintf("m%03dz", i), V: "n"})
		}
	}
	ps = append(ps, lib.Pair{K: "z9", V: "n"})
	return ps
}

func c08Stmt(c *c08Case, limited bool) *lib.Stmt {
	w := lib.Bin("^=", lib.Value(), lib.Str("y"))
	if c.Kind == "plain-in" || c.Kind == "delete-in" {
		// the same result through point reads: key in (<every matching key>, <a missing key>)
		items := []*lib.Node{lib.Str("m999")}
		for i := c.R - 1; i >= 0; i-- {
			items = append(items, lib.Str(fmt.Sprintf("m%03d", i)))
		}
		w = lib.In(lib.Key(), items...)
	}
	var lim *lib.Limit
	if limited {
		lim = &lib.Limit{Start: c.S, Count: c.N, Two: c.Two}
	}
	st := &lib.Stmt{Kind: "select", Where: w, Lim: lim}
	switch c.Kind {
	case "plain", "plain-in":
		st.Fields = []lib.SelField{{E: lib.Key()}, {E: lib.Value()}}
	case "ordered":
		st.Fields = []lib.SelField{{E: lib.Key()}, {E: lib.Value()}}
		st.Order = []lib.OrderKey{{Name: "key", Dir: "desc"}}
	case "ties":
		st.Fields = []lib.SelField{{E: lib.Key()}, {E: lib.Value()}}
		st.Order = []lib.OrderKey{{Name: "value", Dir: "asc"}}
	case "aggr":
		st.Fields = []lib.SelField{{E: lib.Key()}, {E: lib.Call("count", lib.Int(1)), Alias: "c1"}, {E: lib.Call("group_concat", lib.Value(), lib.Str(","))}}
		st.Group = []string{"key"}
	case "aggr-ordered":
		st.Fields = []lib.SelField{{E: lib.Call("upper", lib.Key()), Alias: "g1"}, {E: lib.Call("count", lib.Int(1))}}
		st.Group = []string{"g1"}
		st.Order = []lib.OrderKey{{Name: "g1", Dir: "desc"}}
	case "delete", "delete-in":
		st = &lib.Stmt{Kind: "delete", Where: w, Lim: lim}
	}
	return st
}

func checkC08(c *c08Case) (msg string, nontrivial bool, labels []string) {
	pairs := c08Store(c.R, c.Gap)
	cfg := lib.Cfg{Mode: c.Mode, Batch: c.B, Cache: true}
	lq := c08Stmt(c, true).Render()
	c.Query = lq
	// rows s .. s+n-1, computed without adding s and n (either may be close to
	// the largest integer)
	lo := c.S
	if lo > c.R {
		lo = c.R
	}
	hi := c.R
	if c.N < hi-lo {
		hi = lo + c.N
	}
	nontrivial = (c.S > 0 && hi < c.R) || (c.S > 0 && c.S%c.B == 0) || (c.N > 0 && c.N%c.B == 0) || (c.S > 0 && c.S < c.R && c.N > math.MaxInt64-c.S)
	// matching keys in key order (the reference-filtered list)
	var match []lib.Pair
	for _, p := range pairs {
		if len(p.V) > 0 && p.V[0] == 'y' {
			match = append(match, p)
		}
	}
	if c.Kind == "delete" || c.Kind == "delete-in" {
		in := lib.NewInstr(lib.NewStore(pairs))
		res := lib.Run(lq, in, len(pairs), cfg)
		if res.BuildErr != nil {
			return fmt.Sprintf("statement %q is refused: %v", lq, res.BuildErr), nontrivial, labels
		}
		if res.Failed() {
			return fmt.Sprintf("statement %q [%s]: %s", lq, cfg, res.Describe()), nontrivial, labels
		}
		want := map[string]bool{}
		for _, p := range match[lo:hi] {
			want[p.K] = true
		}
		prior := map[string]bool{}
		for _, p := range pairs {
			prior[p.K] = true
		}
		var wantLeft []lib.Pair
		for _, p := range pairs {
			if !want[p.K] {
				wantLeft = append(wantLeft, p)
			}
		}
		left := in.S.Pairs()
		if fmt.Sprint(left) != fmt.Sprint(lib.NewStore(wantLeft).Pairs()) {
			gone := map[string]bool{}
			for _, p := range pairs {
				gone[p.K] = true
			}
			for _, p := range left {
				delete(gone, p.K)
			}
			return fmt.Sprintf("statement %q [%s] over %d matching pairs: should remove matching pairs %d..%d %v, removed %v", lq, cfg, c.R, lo, hi-1, lib.SortedStrings(want), lib.SortedStrings(gone)), nontrivial, labels
		}
		for _, cl := range in.Calls() {
			if cl.Op == "Put" || cl.Op == "BatchPut" {
				return fmt.Sprintf("statement %q wrote to the store: %v", lq, cl), nontrivial, labels
			}
			if cl.Op == "Delete" || cl.Op == "BatchDelete" {
				for _, k := range cl.Keys {
					if _, stored := prior[k]; !stored {
						continue // removing a key that is not stored changes nothing
					}
					if !want[k] {
						return fmt.Sprintf("statement %q [%s] issued a delete for key %q, which is outside the selected slice %v", lq, cfg, k, lib.SortedStrings(want)), nontrivial, labels
					}
				}
			}
		}
		return "", nontrivial, labels
	}
	uq := c08Stmt(c, false).Render()
	u := lib.Run(uq, lib.NewStore(pairs), len(pairs), cfg)
	l := lib.Run(lq, lib.NewStore(pairs), len(pairs), cfg)
	if u.Failed() || l.BuildErr != nil {
		return fmt.Sprintf("statement %q: unlimited %s / limited %s", lq, u.Describe(), l.Describe()), nontrivial, labels
	}
	if l.Failed() {
		return fmt.Sprintf("statement %q [%s]: %s", lq, cfg, l.Describe()), nontrivial, labels
	}
	if len(u.Rows) != c.R {
		return fmt.Sprintf("un-limited statement %q [%s] returns %d rows, the reference %d", uq, cfg, len(u.Rows), c.R), nontrivial, labels
	}
	if c.Kind == "plain" || c.Kind == "aggr" || c.Kind == "plain-in" {
		// the unlimited result itself is the reference-filtered list in key order
		for i, p := range match {
			if u.Rows[i][0] != any(p.K) {
				return fmt.Sprintf("un-limited statement %q [%s]: row %d is %s, reference key %q", uq, cfg, i, lib.ShowRow(u.Rows[i]), p.K), nontrivial, labels
			}
		}
	}
	want := u.Rows[lo:hi]
	if c.Kind != "ties" {
		if !lib.EqualRows(l.Rows, want) {
			return fmt.Sprintf("statement %q [%s] (result size %d, batch size %d):\n  expected rows %d..%d of the unlimited result: %s\n  got %s", lq, cfg, c.R, c.B, lo, hi-1, lib.ShowRows(want), lib.ShowRows(l.Rows)), nontrivial, labels
		}
		return "", nontrivial, labels
	}
	// ties: a slice of SOME valid sorted order
	if len(l.Rows) != len(want) {
		return fmt.Sprintf("statement %q [%s] (result size %d): expected %d rows, got %d: %s", lq, cfg, c.R, len(want), len(l.Rows), lib.ShowRows(l.Rows)), nontrivial, labels
	}
	for i := range want {
		if !lib.EqualVal(l.Rows[i][1], want[i][1]) {
			return fmt.Sprintf("statement %q [%s]: row %d has order key %s, position %d of the sorted unlimited result has %s", lq, cfg, i, lib.Show(l.Rows[i][1]), lo+i, lib.Show(want[i][1])), nontrivial, labels
		}
	}
	// per tie group, the limited rows are a sub-multiset of the unlimited rows
	avail := map[string]int{}
	for _, r := range u.Rows {
		avail[lib.ShowRow(r)]++
	}
	for _, r := range l.Rows {
		k := lib.ShowRow(r)
		avail[k]--
		if avail[k] < 0 {
			return fmt.Sprintf("statement %q [%s] returns row %s more often than the unlimited result contains it", lq, cfg, k), nontrivial, labels
		}
	}
	return "", nontrivial, labels
}

var c08Kinds = []string{"plain", "ordered", "ties", "aggr", "aggr-ordered", "delete", "plain-in", "delete-in"}

func c08Run(t lib.Fataler, c *c08Case, enum bool) {
	lib.Journal("C08", "c08", c)
	msg, nt, labels := checkC08(c)
	labels = append(labels, "kind="+c.Kind, "mode="+c.Mode, fmt.Sprintf("b=%d", c.B))
	sample := func() any { return map[string]any{"query": c.Query, "result_size": c.R, "batch": c.B, "mode": c.Mode} }
	if enum {
		lib.Stats.EnumCase(nt, labels, sample)
	} else {
		lib.Stats.Case(nt, fmt.Sprintf("%+v", *c), labels, sample)
	}
	if msg != "" {
		fail(t, "C08", "c08", msg, c)
	}
}

// TestC08Grid: the exhaustive (offset, count, result size, batch size) grid.
func TestC08Grid(t *testing.T) {
	lib.Stats.Exhaustive = true
	idx := 0
	emit := func(b, r, s, n int) {
		for ki, kind := range c08Kinds {
			for _, mode := range []string{"row", "batch"} {
				idx++
				if !lib.Mine(idx) {
					continue
				}
				gap := (r + s + ki) % 3 // 0 none, 1 every pair, 2 irregular
				c08Run(t, &c08Case{B: b, R: r, S: s, N: n, Kind: kind, Mode: mode, Two: true, Gap: gap}, true)
				if s == 0 {
					c08Run(t, &c08Case{B: b, R: r, S: 0, N: n, Kind: kind, Mode: mode, Two: false, Gap: gap}, true)
				}
			}
		}
	}
	bs := []int{1, 2, 3, 4, 5, 8}
	if lib.Thorough() {
		bs = append(bs, 6, 7, 16)
	}
	for _, b := range bs {
		for r := 0; r <= 3*b+2; r++ {
			for s := 0; s <= r+2; s++ {
				for n := 0; n <= r+2; n++ {
					emit(b, r, s, n)
				}
			}
		}
	}
	// counts near the integer limits
	for _, b := range []int{1, 2, 5, 32} {
		for _, r := range []int{0, 1, 4, 2*b + 1} {
			for _, s := range []int{0, 1, 2, r, r + 1} {
				for _, n := range []int{math.MaxInt64, math.MaxInt64 - 1, math.MaxInt64 - s, 1 << 32} {
					emit(b, r, s, n)
				}
			}
		}
	}
	big := []int{0, 1, 31, 32, 33, 63, 64, 65, 96, 97}
	for _, r := range big {
		for _, s := range big {
			for _, n := range big {
				emit(32, r, s, n)
			}
		}
	}
}

var c08Huge = []int{math.MaxInt64, math.MaxInt64 - 1, math.MaxInt64 - 33, math.MaxInt64/2 + 1, 1 << 32, 1<<31 - 1, 1 << 31}

// TestC08Sampled: large random (b, r, s, n).
func TestC08Sampled(t *testing.T) {
	rapid.Check(t, func(rt *rapid.T) {
		b := rapid.SampledFrom([]int{1, 2, 3, 5, 7, 10, 32, 64}).Draw(rt, "b")
		r := rapid.IntRange(0, 200).Draw(rt, "r")
		pool := []int{0, 1, b - 1, b, b + 1, 2 * b, 2*b + 1, r - 1, r, r + 1, r / 2, 3 * b}
		pick := func(name string) int {
			v := rapid.SampledFrom(pool).Draw(rt, name)
			if v < 0 {
				v = 0
			}
			return v
		}
		s, n := pick("s"), pick("n")
		if rapid.IntRange(0, 3).Draw(rt, "free") == 0 {
			s, n = rapid.IntRange(0, 220).Draw(rt, "sFree"), rapid.IntRange(0, 220).Draw(rt, "nFree")
		}
		c := &c08Case{B: b, R: r, S: s, N: n, Kind: rapid.SampledFrom(c08Kinds).Draw(rt, "kind"),
			Mode: rapid.SampledFrom([]string{"row", "batch"}).Draw(rt, "mode"), Two: true, Gap: rapid.IntRange(0, 2).Draw(rt, "gap")}
		// offsets and counts near the integer limits ("everything after row s")
		if rapid.IntRange(0, 5).Draw(rt, "hugeN") == 0 {
			c.N = rapid.SampledFrom(c08Huge).Draw(rt, "nHuge")
		}
		if rapid.IntRange(0, 11).Draw(rt, "hugeS") == 0 {
			c.S = rapid.SampledFrom(c08Huge).Draw(rt, "sHuge")
		}
		if c.S == 0 && rapid.Bool().Draw(rt, "oneArg") {
			c.Two = false
		}
		c08Run(rt, c, false)
	})
}
