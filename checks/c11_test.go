package checks

import (
	"fmt"
	"testing"

	"github.com/c4pt0r/kvql"
	"pgregory.net/rapid"

	"verif/lib"
)

// C11 — DELETE removes exactly the pairs its WHERE (and LIMIT) selects.

type c11Case struct {
	Stmt  *lib.Stmt  `json:"stmt"` // delete statement
	Pairs []lib.Pair `json:"pairs"`
	Batch int        `json:"batch"`
	Polls string     `json:"polls"` // e.g. "NB": Next then Batch on the same plan
	Query string     `json:"query"`
}

func init() { registerReplay("c11", func(c *c11Case) string { m, _, _ := checkC11(c); return m }) }

// pollPlan drives a built plan with the given pattern of Next / Batch calls.
func pollPlan(plan kvql.FinalPlan, polls string) (results [][]any, err error, pan string) {
	defer func() {
		if p := recover(); p != nil {
			pan = fmt.Sprint(p)
		}
	}()
	ctx := kvql.NewExecuteCtx()
	for _, p := range polls {
		if p == 'N' {
			cols, e := plan.Next(ctx)
			if e != nil {
				return results, e, ""
			}
			if cols == nil {
				results = append(results, nil)
			} else {
				r := make([]any, len(cols))
				for i, c := range cols {
					r[i] = lib.Norm(c)
				}
				results = append(results, r)
			}
		} else {
			rows, e := plan.Batch(ctx)
			if e != nil {
				return results, e, ""
			}
			if len(rows) == 0 {
				results = append(results, nil)
			}
			for _, cols := range rows {
				r := make([]any, len(cols))
				for i, c := range cols {
					r[i] = lib.Norm(c)
				}
				results = append(results, r)
			}
		}
	}
	return results, nil, ""
}

// expectedDelete: keys of the reference-filtered prior state, in key order,
// sliced by the limit.
func expectedDelete(st *lib.Stmt, pairs []lib.Pair) ([]string, error) {
	var keys []string
	for _, p := range lib.NewStore(pairs).Pairs() {
		ok, err := lib.EvalBool(st.Where, p.K, p.V, nil)
		if err != nil {
			return nil, err
		}
		if ok {
			keys = append(keys, p.K)
		}
	}
	if st.Lim != nil {
		// rows s .. s+n-1, computed without adding s and n (either may be
		// close to the largest integer)
		lo := st.Lim.Start
		if lo > len(keys) {
			lo = len(keys)
		}
		hi := len(keys)
		if st.Lim.Count < hi-lo {
			hi = lo + st.Lim.Count
		}
		keys = keys[lo:hi]
	}
	return keys, nil
}

func checkC11(c *c11Case) (msg string, nontrivial bool, labels []string) {
	q := c.Stmt.Render()
	c.Query = q
	want, err := expectedDelete(c.Stmt, c.Pairs)
	if err != nil {
		return "", false, []string{"skipped-not-evaluable"}
	}
	wantSet := map[string]bool{}
	for _, k := range want {
		wantSet[k] = true
	}
	nontrivial = len(want) > 0 && len(want) < len(c.Pairs)
	in := lib.NewInstr(lib.NewStore(c.Pairs))
	cfg := lib.Cfg{Mode: "row", Batch: c.Batch, Cache: true}
	b := lib.Build(q, in, cfg)
	if b.Panic != "" {
		return fmt.Sprintf("planning %q panicked: %s", q, b.Panic), nontrivial, labels
	}
	if b.BuildErr != nil {
		return "", false, []string{"rejected-by-engine"}
	}
	strategy := "scan-delete"
	switch p := b.Plan.(type) {
	case *kvql.RemovePlan:
		strategy = "shortcut"
	case *kvql.DeletePlan:
		if _, ok := lib.ScanNode(p).(*kvql.EmptyResultPlan); ok {
			strategy = "empty"
		}
	}
	labels = append(labels, "strategy="+strategy)
	lib.SetGlobals(cfg)
	_, perr, pan := pollPlan(b.Plan, c.Polls)
	if pan != "" {
		return fmt.Sprintf("executing %q over %v (polls %s, batch size %d) panicked: %s", q, c.Pairs, c.Polls, c.Batch, pan), nontrivial, labels
	}
	if perr != nil {
		return fmt.Sprintf("executing %q over %v (polls %s, batch size %d) failed: %v; expected to delete %q", q, c.Pairs, c.Polls, c.Batch, perr, want), nontrivial, labels
	}
	// store afterwards = prior minus expected, every surviving pair unchanged
	var wantLeft []lib.Pair
	for _, p := range lib.NewStore(c.Pairs).Pairs() {
		if !wantSet[p.K] {
			wantLeft = append(wantLeft, p)
		}
	}
	left := in.S.Pairs()
	if fmt.Sprint(left) != fmt.Sprint(wantLeft) {
		return fmt.Sprintf("statement %q (batch size %d, polls %s, strategy %s) over %v:\n  should remove %q and leave %v\n  left %v", q, c.Batch, c.Polls, strategy, c.Pairs, want, wantLeft, left), nontrivial, labels
	}
	for _, cl := range in.Calls() {
		switch cl.Op {
		case "Put", "BatchPut":
			return fmt.Sprintf("statement %q wrote to the store: %+v", q, cl), nontrivial, labels
		case "Delete", "BatchDelete":
			for _, k := range cl.Keys {
				if strategy == "shortcut" {
					continue // literal key set: keys absent from the store are fine
				}
				if !wantSet[k] {
					return fmt.Sprintf("statement %q issued a delete for key %q which its WHERE/LIMIT does not select (%q)", q, k, want), nontrivial, labels
				}
			}
		}
	}
	if c.Stmt.Lim != nil {
		labels = append(labels, "limited")
	}
	if len(want) > c.Batch {
		labels = append(labels, "spans-batches")
	}
	return "", nontrivial, labels
}

func genPolls(rt *rapid.T) string {
	n := rapid.IntRange(1, 5).Draw(rt, "npolls")
	b := make([]byte, n)
	for i := range b {
		b[i] = rapid.SampledFrom([]byte{'N', 'B'}).Draw(rt, "poll")
	}
	return string(b)
}

func TestC11(t *testing.T) {
	rapid.Check(t, func(rt *rapid.T) {
		kind := lib.GenKind(rt)
		pairs := lib.GenStore(rt, kind, lib.GenStoreSize(rt))
		ctx := &lib.GenCtx{Kind: kind, Pairs: pairs}
		var w *lib.Node
		switch rapid.IntRange(0, 3).Draw(rt, "whereShape") {
		case 0:
			w = ctx.KeyAtom(rt)
		case 1:
			op := rapid.SampledFrom([]string{"&", "|", "and", "or"}).Draw(rt, "op")
			w = lib.Bin(op, ctx.KeyAtom(rt), ctx.KeyAtom(rt))
		default:
			w = ctx.GenBool(rt, rapid.IntRange(0, 3).Draw(rt, "depth"))
		}
		st := &lib.Stmt{Kind: "delete", Where: w}
		if rapid.IntRange(0, 2).Draw(rt, "limited") == 0 {
			st.Lim = lib.GenLimit(rt, len(pairs))
		}
		c := &c11Case{Stmt: st, Pairs: pairs, Batch: rapid.SampledFrom([]int{1, 2, 3, 32}).Draw(rt, "batch"), Polls: genPolls(rt)}
		lib.Journal("C11", "c11", c)
		msg, nt, labels := checkC11(c)
		lib.Stats.Case(nt, c.Query+"|"+fmt.Sprint(pairs, c.Batch, c.Polls), labels, func() any {
			return map[string]any{"query": c.Query, "pairs": len(pairs), "batch": c.Batch, "polls": c.Polls}
		})
		if msg != "" {
			fail(rt, "C11", "c11", msg, c)
		}
	})
}

// ---- histories: put / remove / delete / select against a model map ---------------

type histStep struct {
	Query string `json:"query"`
	Batch int    `json:"batch"`
	Mode  string `json:"mode"`
}

type histCase struct {
	Prop  string      `json:"prop"`
	Init  []lib.Pair  `json:"init"`
	Steps []histStep  `json:"steps"`
	Stmts []*lib.Stmt `json:"stmts"`
}

func init() {
	registerReplay("history", func(c *histCase) string { return replayHistory(c) })
}

// applyToModel computes the model effect of a statement; rows is the
// expected SELECT result (nil for writes).
func applyToModel(st *lib.Stmt, model map[string]string) (rows [][]any, err error) {
	var pairs []lib.Pair
	for k, v := range model {
		pairs = append(pairs, lib.Pair{K: k, V: v})
	}
	switch st.Kind {
	case "select":
		ref, err := lib.RefSelect(st, pairs)
		if err != nil {
			return nil, err
		}
		rows = [][]any{}
		for _, r := range ref {
			rows = append(rows, r.Cols)
		}
		return rows, nil
	case "delete":
		keys, err := expectedDelete(st, pairs)
		if err != nil {
			return nil, err
		}
		for _, k := range keys {
			delete(model, k)
		}
	case "put":
		type kv struct{ k, v string }
		var writes []kv
		for _, p := range st.Pairs {
			k, err := evalText(p[0], "", "")
			if err != nil {
				return nil, err
			}
			if k == "" {
				return nil, fmt.Errorf("%w: empty key (keys are non-empty byte strings)", lib.ErrDomain)
			}
			v, err := evalText(p[1], k, "")
			if err != nil {
				return nil, err
			}
			writes = append(writes, kv{k, v})
		}
		for _, w := range writes {
			model[w.k] = w.v
		}
	case "remove":
		var keys []string
		for _, e := range st.Keys {
			k, err := evalText(e, "", "")
			if err != nil {
				return nil, err
			}
			keys = append(keys, k)
		}
		for _, k := range keys {
			delete(model, k)
		}
	}
	return nil, nil
}

// evalText: reference value of a PUT/REMOVE operand as the stored text.
func evalText(n *lib.Node, k, v string) (string, error) {
	val, err := lib.Eval(n, &lib.Env{K: k, V: v})
	if err != nil {
		return "", err
	}
	switch x := val.(type) {
	case string:
		return x, nil
	case int64:
		return fmt.Sprintf("%d", x), nil
	}
	return "", fmt.Errorf("%w: operand of type %T", lib.ErrDomain, val)
}

func modelPairs(model map[string]string) []lib.Pair {
	var ps []lib.Pair
	for k, v := range model {
		ps = append(ps, lib.Pair{K: k, V: v})
	}
	return lib.NewStore(ps).Pairs()
}

// runHistoryStep executes one statement against the store and the model and
// compares; returns "" when they agree, skip=true when the statement is
// outside the reference domain (nothing executed).
func runHistoryStep(st *lib.Stmt, step histStep, store *lib.Store, model map[string]string) (msg string, skip bool) {
	trial := map[string]string{}
	for k, v := range model {
		trial[k] = v
	}
	wantRows, err := applyToModel(st, trial)
	if err != nil {
		return "", true
	}
	cfg := lib.Cfg{Mode: step.Mode, Batch: step.Batch, Cache: true}
	res := lib.Run(step.Query, store, len(model)+8, cfg)
	if res.BuildErr != nil {
		return "", true
	}
	if res.Failed() {
		return fmt.Sprintf("step %q [%s] on state %v: %s", step.Query, cfg, modelPairs(model), res.Describe()), false
	}
	for k := range model {
		delete(model, k)
	}
	for k, v := range trial {
		model[k] = v
	}
	if st.Kind == "select" {
		if !lib.EqualRows(res.Rows, wantRows) {
			return fmt.Sprintf("step %q [%s] on state %v:\n  model  %s\n  engine %s", step.Query, cfg, modelPairs(model), lib.ShowRows(wantRows), lib.ShowRows(res.Rows)), false
		}
	}
	if got, want := fmt.Sprint(store.Pairs()), fmt.Sprint(modelPairs(model)); got != want {
		return fmt.Sprintf("after step %q [%s] the store is %s, the model %s", step.Query, cfg, got, want), false
	}
	return "", false
}

func replayHistory(c *histCase) string {
	store := lib.NewStore(c.Init)
	model := map[string]string{}
	for _, p := range c.Init {
		model[p.K] = p.V
	}
	for i, step := range c.Steps {
		msg, _ := runHistoryStep(c.Stmts[i], step, store, model)
		if msg != "" {
			return fmt.Sprintf("history step %d/%d: %s", i+1, len(c.Steps), msg)
		}
	}
	return ""
}

func historyTest(t *testing.T, prop string, writeBias int) {
	rapid.Check(t, func(rt *rapid.T) {
		kind := rapid.SampledFrom([]lib.StoreKind{lib.KInt, lib.KWord, lib.KWord, lib.KCSV}).Draw(rt, "kind")
		init := lib.GenStore(rt, kind, rapid.SampledFrom([]int{0, 2, 5, 9}).Draw(rt, "n"))
		store := lib.NewStore(init)
		model := map[string]string{}
		for _, p := range init {
			model[p.K] = p.V
		}
		hc := &histCase{Prop: prop, Init: init}
		nsel, nwrite := 0, 0
		step := func(st *lib.Stmt) {
			hs := histStep{Query: st.Render(), Batch: lib.GenBatchSize(rt), Mode: rapid.SampledFrom([]string{"row", "batch"}).Draw(rt, "mode")}
			hc.Steps = append(hc.Steps, hs)
			hc.Stmts = append(hc.Stmts, st)
			lib.Journal(prop, "history", hc)
			msg, skip := runHistoryStep(st, hs, store, model)
			if skip {
				hc.Steps = hc.Steps[:len(hc.Steps)-1]
				hc.Stmts = hc.Stmts[:len(hc.Stmts)-1]
				lib.Stats.Label("step-skipped")
				return
			}
			if msg != "" {
				fail(rt, prop, "history", fmt.Sprintf("history step %d: %s", len(hc.Steps), msg), hc)
			}
		}
		cur := func() []lib.Pair { return modelPairs(model) }
		actions := map[string]func(*rapid.T){
			"put": func(t *rapid.T) {
				nwrite++
				step(lib.GenPut(t, kind, cur(), false))
			},
			"remove": func(t *rapid.T) {
				nwrite++
				st := lib.GenRemove(t, kind, cur(), false)
				// remove keys that exist, most of the time
				if ps := cur(); len(ps) > 0 && rapid.Bool().Draw(t, "existing") {
					st.Keys[0] = lib.Str(rapid.SampledFrom(ps).Draw(t, "victim").K)
				}
				step(st)
			},
			"delete": func(t *rapid.T) {
				nwrite++
				step(lib.GenDelete(t, kind, cur(), false))
			},
			"select": func(t *rapid.T) {
				nsel++
				c := &lib.GenCtx{Kind: kind, Pairs: cur()}
				step(&lib.Stmt{Kind: "select", Star: true, Where: c.GenBool(t, rapid.IntRange(0, 2).Draw(t, "depth"))})
			},
			"point-select": func(t *rapid.T) {
				nsel++
				ps := cur()
				k := "zz"
				if len(ps) > 0 {
					k = rapid.SampledFrom(ps).Draw(t, "pk").K
				}
				if _, ok := lib.Quote(k); !ok {
					k = "zz"
				}
				step(&lib.Stmt{Kind: "select", Star: true, Where: lib.Bin("=", lib.Key(), lib.Str(k))})
			},
		}
		_ = writeBias
		rt.Repeat(actions)
		lib.Stats.Case(nwrite >= 2 && nsel >= 1 && len(hc.Steps) >= 3, fmt.Sprint(hc.Init, hc.Steps), []string{fmt.Sprintf("steps~%d", (len(hc.Steps)/5)*5)}, func() any {
			qs := []string{}
			for _, s := range hc.Steps {
				qs = append(qs, s.Query)
			}
			return map[string]any{"initial_pairs": len(hc.Init), "statements": qs}
		})
	})
}

func TestC11History(t *testing.T) { historyTest(t, "C11", 1) }
