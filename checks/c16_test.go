package checks

import (
	"fmt"
	"strings"
	"testing"
	"unicode/utf8"

	"github.com/c4pt0r/kvql"
	"pgregory.net/rapid"

	"verif/lib"
)

// C16 — tokens carry their true offset and text; spacing is irrelevant.

type c16Case struct {
	Query string `json:"query"`
}

func init() { registerReplay("c16", func(c *c16Case) string { return checkC16(c.Query) }) }

func tokKind(t *kvql.Token) string { return kvql.TokenTypeToString[t.Tp] }

func showToks(toks []*kvql.Token) string {
	parts := make([]string, len(toks))
	for i, t := range toks {
		parts[i] = fmt.Sprintf("%s:%q@%d", tokKind(t), t.Data, t.Pos)
	}
	return "[" + strings.Join(parts, " ") + "]"
}

func showRefToks(toks []lib.RefTok) string {
	parts := make([]string, len(toks))
	for i, t := range toks {
		parts[i] = fmt.Sprintf("%s:%q@%d", t.Kind, t.Data, t.Pos)
	}
	return "[" + strings.Join(parts, " ") + "]"
}

// checkC16 is the oracle for one query string: token-truth invariants on
// every input, and exact agreement with the reference tokeniser on inputs
// whose tokenisation the documentation fixes.
func checkC16(q string) (msg string) {
	defer func() {
		if p := recover(); p != nil {
			msg = fmt.Sprintf("lexer panicked on %q: %v", q, p)
		}
	}()
	toks := kvql.NewLexer(q).Split()
	// invariants
	prevEnd := 0
	for i, t := range toks {
		if t.Pos < 0 || t.Pos >= len(q) {
			return fmt.Sprintf("query %q: token %d %s has offset outside the query", q, i, showToks(toks[i:i+1]))
		}
		if t.Pos < prevEnd {
			return fmt.Sprintf("query %q: token %d overlaps or precedes its predecessor: %s", q, i, showToks(toks))
		}
		span := len(t.Data)
		c := q[t.Pos]
		switch {
		case (t.Tp == kvql.STRING || t.Tp == kvql.NAME) && (c == '\'' || c == '"' || c == '`'):
			if t.Tp == kvql.STRING && c == '`' || t.Tp == kvql.NAME && c != '`' {
				return fmt.Sprintf("query %q: token %d has the wrong kind for its quote: %s", q, i, showToks(toks))
			}
			end := t.Pos + 1 + len(t.Data)
			if end > len(q) || q[t.Pos+1:end] != t.Data {
				return fmt.Sprintf("query %q: quoted token %d does not carry the bytes that follow its quote: %s", q, i, showToks(toks))
			}
			if strings.IndexByte(t.Data, c) >= 0 {
				return fmt.Sprintf("query %q: quoted token %d runs past its closing quote: %s", q, i, showToks(toks))
			}
			if end < len(q) {
				if q[end] != c {
					return fmt.Sprintf("query %q: quoted token %d is truncated (not followed by its closing quote): %s", q, i, showToks(toks))
				}
				span = len(t.Data) + 2
			} else {
				span = len(t.Data) + 1 // unterminated literal running to the end of input
			}
		case t.Tp == kvql.STRING:
			return fmt.Sprintf("query %q: string token %d does not start at a quote: %s", q, i, showToks(toks))
		default:
			n, ok := c16SourceSpan(q[t.Pos:], t.Data, isWordTok(t))
			if !ok {
				return fmt.Sprintf("query %q: token %d text %q is not what stands at its offset %d (%q..): %s", q, i, t.Data, t.Pos, q[t.Pos:min(len(q), t.Pos+len(t.Data)+2)], showToks(toks))
			}
			span = n
		}
		prevEnd = t.Pos + span
	}
	ref, ok := lib.RefLex(q)
	if !ok {
		return ""
	}
	if len(ref) != len(toks) {
		return fmt.Sprintf("query %q: tokens %s, reference tokeniser %s", q, showToks(toks), showRefToks(ref))
	}
	for i := range ref {
		if ref[i].Kind != tokKind(toks[i]) || ref[i].Data != toks[i].Data || ref[i].Pos != toks[i].Pos {
			return fmt.Sprintf("query %q: tokens %s, reference tokeniser %s", q, showToks(toks), showRefToks(ref))
		}
	}
	return ""
}

// c16SourceSpan: how many bytes at the start of rest spell data. Operators
// and punctuation are carried as written; a word is carried case-folded, and
// folding may change the byte length of a letter (U+212A KELVIN SIGN folds to
// k), so the source is walked letter by letter.
func c16SourceSpan(rest, data string, word bool) (int, bool) {
	if !word {
		return len(data), strings.HasPrefix(rest, data)
	}
	done := 0
	for i := 0; i < len(rest); {
		_, size := utf8.DecodeRuneInString(rest[i:])
		piece := lib.FoldWord(rest[i : i+size])
		if !strings.HasPrefix(data[done:], piece) {
			return 0, false
		}
		done += len(piece)
		i += size
		if done == len(data) {
			return i, true
		}
	}
	return 0, false
}

func isWordTok(t *kvql.Token) bool {
	switch t.Tp {
	case kvql.OPERATOR:
		switch t.Data {
		case "in", "between", "and", "or":
			return true
		}
		return false
	case kvql.LPAREN, kvql.RPAREN, kvql.LBRACK, kvql.RBRACK, kvql.SEP, kvql.SEMI, kvql.STRING:
		return false
	}
	return true
}

// tab and line end are blanks like the space; \xff is a byte that is not
// valid UTF-8 (a word must carry it unchanged); form feed is a blank the
// documentation does not mention (the reference abstains, but whatever the
// lexer makes of it, every token must stand where it says it stands); 0xc3
// 0xa0 together are the letter a-grave, whose last byte read on its own is the
// Latin-1 no-break space
// (round 10: the carriage return, so that a Windows line end behind a word,
// "a\r\n", is among the enumerated strings)
// (round 12: the backslash - the language has no escape sequences, a quote
// behind a backslash closes its literal like any other)
const c16Alphabet = "a1. '\"`=!<>^~&|()[],;+-*/\t\n\r\xff\f\xc3\xa0\\"

func c16Nontrivial(q string) bool {
	// a two-character operator, or a quoted literal adjacent to another token
	for i := 0; i+1 < len(q); i++ {
		if q[i+1] == '=' && strings.IndexByte("!^~<>", q[i]) >= 0 {
			return true
		}
	}
	ref, _ := lib.RefLex(q)
	for i, t := range ref {
		if !t.Quoted {
			continue
		}
		end := t.Pos + len(t.Data) + 2
		if i > 0 {
			p := ref[i-1]
			pend := p.Pos + len(p.Data)
			if p.Quoted {
				pend += 2
			}
			if pend == t.Pos {
				return true
			}
		}
		if i+1 < len(ref) && ref[i+1].Pos == end {
			return true
		}
	}
	return false
}

// TestC16Exhaustive enumerates every string up to length L over the
// token-relevant alphabet.
func TestC16Exhaustive(t *testing.T) {
	L := lib.Pick(4, 5)
	lib.Stats.Exhaustive = true
	alpha := []byte(c16Alphabet)
	idx := 0
	buf := make([]byte, 0, L)
	var rec func(depth int)
	rec = func(depth int) {
		if len(buf) > 0 {
			idx++
			if lib.Mine(idx) {
				q := string(buf)
				msg := checkC16(q)
				nt := c16Nontrivial(q)
				lib.Stats.EnumCase(nt, []string{fmt.Sprintf("len=%d", len(q))}, func() any { return q })
				if msg != "" {
					fail(t, "C16", "c16", msg, &c16Case{Query: q})
				}
			}
		}
		if depth == L {
			return
		}
		for _, c := range alpha {
			buf = append(buf, c)
			rec(depth + 1)
			buf = buf[:len(buf)-1]
		}
	}
	rec(0)
}

// ---- leg (b): token sequences × every choice of optional spacing ----------

type c16Tok struct {
	Kind string `json:"kind"`
	Text string `json:"text"` // as written in the query (quotes included)
	Data string `json:"data"` // expected token data
	Word bool   `json:"word"` // word-like (keyword, name, number)
}

var c16Words = []string{"key", "VALUE", "Select", "where", "AND", "or", "In", "between", "x", "f1", "k_2", "12", "007", "1.5", ".5", "limit", "As", "desc", "true", "put", "tarif\u00e0", "\u0446\u0435\u0445", "a\u00c5", "\u0105", "\u023a", "x\u212a", "\u0130d", "\u2126m"}
var c16Ops = []string{"=", "!=", "^=", "~=", "<", "<=", ">", ">=", "+", "-", "*", "/", "!", "&", "|"}
var c16Puncts = []string{"(", ")", "[", "]", ",", ";"}

// (the last four: letters whose lower-case form has another byte length; a
// literal keeps them as written, the words behind it keep their offsets)
var c16Inner = []string{"", "a", "A b", "k=1", "x<=y", "(", "a,b", " ", "!", "and", "1+2", "ü", "a;b|c&d", "\u023a", "\u212a", "\u0130", "\u1e9e\u212b", "C:\\data\\", "\\", "a\\b"}

func genC16Tok(t *rapid.T) c16Tok {
	switch rapid.IntRange(0, 9).Draw(t, "tokclass") {
	case 0, 1, 2:
		w := rapid.SampledFrom(c16Words).Draw(t, "word")
		return c16Tok{Kind: lib.ClassifyWord(w), Text: w, Data: strings.ToLower(w), Word: true}
	case 3, 4:
		inner := rapid.SampledFrom(c16Inner).Draw(t, "inner")
		qc := rapid.SampledFrom([]string{"'", "\"", "`"}).Draw(t, "quote")
		other := map[string]string{"'": "\"", "\"": "'", "`": "'"}[qc]
		if rapid.Bool().Draw(t, "embedOtherQuote") {
			inner = inner + other + "z"
		}
		kind := "STR"
		if qc == "`" {
			kind = "NAME"
		}
		return c16Tok{Kind: kind, Text: qc + inner + qc, Data: inner}
	case 5, 6, 7:
		op := rapid.SampledFrom(c16Ops).Draw(t, "op")
		return c16Tok{Kind: "OP", Text: op, Data: op}
	default:
		p := rapid.SampledFrom(c16Puncts).Draw(t, "punct")
		kind := p
		switch p {
		case ",":
			kind = "SEP"
		case ";":
			kind = "SEMI"
		}
		return c16Tok{Kind: kind, Text: p, Data: p}
	}
}

func c16IsWordLike(t c16Tok) bool { return t.Word }

// gapMandatory: a space is needed only between two word-like tokens and where
// two operator characters would otherwise fuse into a two-character operator.
func c16GapMandatory(a, b c16Tok) bool {
	if c16IsWordLike(a) && c16IsWordLike(b) {
		return true
	}
	if a.Kind == "OP" && b.Kind == "OP" && !a.Word && !b.Word {
		last := a.Text[len(a.Text)-1]
		if b.Text[0] == '=' && strings.IndexByte("!<>^~", last) >= 0 && len(a.Text) == 1 {
			return true
		}
	}
	return false
}

type c16SeqCase struct {
	Toks   []c16Tok `json:"toks"`
	Spaces []int    `json:"spaces"`          // spaces before token i (and one trailing entry)
	Blank  string   `json:"blank,omitempty"` // what one "space" is made of (default " "): tab, line end, CRLF
}

func (c *c16SeqCase) blank() string {
	if c.Blank == "" {
		return " "
	}
	return c.Blank
}

func init() {
	registerReplay("c16seq", func(c *c16SeqCase) string { return checkC16Seq(c) })
}

func (c *c16SeqCase) query() string {
	var sb strings.Builder
	for i, tk := range c.Toks {
		sb.WriteString(strings.Repeat(c.blank(), c.Spaces[i]))
		sb.WriteString(tk.Text)
	}
	sb.WriteString(strings.Repeat(c.blank(), c.Spaces[len(c.Toks)]))
	return sb.String()
}

func checkC16Seq(c *c16SeqCase) string {
	q := c.query()
	if msg := checkC16(q); msg != "" {
		return msg
	}
	toks := kvql.NewLexer(q).Split()
	if len(toks) != len(c.Toks) {
		return fmt.Sprintf("query %q was built from %d tokens but lexes to %s", q, len(c.Toks), showToks(toks))
	}
	for i, tk := range c.Toks {
		if tokKind(toks[i]) != tk.Kind || toks[i].Data != tk.Data {
			return fmt.Sprintf("query %q: token %d should be %s:%q, lexer gives %s", q, i, tk.Kind, tk.Data, showToks(toks))
		}
	}
	return ""
}

// TestC16Spacing: token sequences of length <= 8; for each sequence every
// choice (0 or 1 space, and one sampled wider choice) of the optional gaps.
func TestC16Spacing(t *testing.T) {
	rapid.Check(t, func(rt *rapid.T) {
		n := rapid.IntRange(1, 8).Draw(rt, "ntoks")
		toks := make([]c16Tok, n)
		for i := range toks {
			toks[i] = genC16Tok(rt)
		}
		wide := rapid.IntRange(2, 4).Draw(rt, "wide")
		// the documented blanks: space, tab, line end (alone or as CRLF, CR)
		blank := rapid.SampledFrom([]string{" ", " ", " ", "\t", "\n", "\r\n", "\r", " \r\n"}).Draw(rt, "blank")
		// optional gap positions: 0 (leading) .. n (trailing)
		mandatory := make([]bool, n+1)
		for i := 1; i < n; i++ {
			mandatory[i] = c16GapMandatory(toks[i-1], toks[i])
		}
		var opt []int
		for i := 0; i <= n; i++ {
			if !mandatory[i] {
				opt = append(opt, i)
			}
		}
		// every subset of optional gaps gets a space (2^|opt| <= 512)
		for mask := 0; mask < 1<<len(opt); mask++ {
			c := &c16SeqCase{Toks: toks, Spaces: make([]int, n+1), Blank: blank}
			for i := range mandatory {
				if mandatory[i] {
					c.Spaces[i] = 1
				}
			}
			adjQuote := false
			for bi, pos := range opt {
				if mask&(1<<bi) != 0 {
					c.Spaces[pos] = 1
					if mask == 1<<len(opt)-1 {
						c.Spaces[pos] = wide
					}
				}
			}
			q := c.query()
			for i := 1; i < n; i++ {
				if c.Spaces[i] == 0 && (strings.ContainsAny(toks[i].Text[:1], "'\"`") || strings.ContainsAny(toks[i-1].Text[:1], "'\"`")) {
					adjQuote = true
				}
			}
			twoChar := false
			for _, tk := range toks {
				if tk.Kind == "OP" && len(tk.Text) == 2 && tk.Text[1] == '=' {
					twoChar = true
				}
			}
			lib.Stats.Case(adjQuote || twoChar, q, []string{fmt.Sprintf("ntoks=%d", n)}, func() any { return q })
			if msg := checkC16Seq(c); msg != "" {
				fail(rt, "C16", "c16seq", msg, c)
			}
		}
	})
}
