package checks

import (
	"fmt"
	"strconv"
	"strings"
	"testing"

	"github.com/c4pt0r/kvql"
	"pgregory.net/rapid"

	"verif/lib"
)

// C15 — parsing follows the documented precedence; the printed form
// re-parses identically.

type c15Case struct {
	Tree  *lib.Node `json:"tree"`  // generating tree of the WHERE expression
	Text  string    `json:"text"`  // its rendering (the parentheses/case style under test)
	Field bool      `json:"field"` // place as a select field instead of WHERE
}

func init() { registerReplay("c15", func(c *c15Case) string { m, _, _ := checkC15(c); return m }) }

// engSExpr renders kvql's parse tree in the same structural form as
// lib.SExpr, walking exported node types only.
func engSExpr(e kvql.Expression) string {
	switch x := e.(type) {
	case *kvql.BinaryOpExpr:
		op := kvql.OperatorToString[x.Op]
		return "(" + op + " " + engSExpr(x.Left) + " " + engSExpr(x.Right) + ")"
	case *kvql.NotExpr:
		return "(! " + engSExpr(x.Right) + ")"
	case *kvql.ListExpr:
		parts := make([]string, len(x.List))
		for i, it := range x.List {
			parts[i] = engSExpr(it)
		}
		return "(list " + strings.Join(parts, " ") + ")"
	case *kvql.FunctionCallExpr:
		parts := []string{}
		for _, a := range x.Args {
			parts = append(parts, engSExpr(a))
		}
		name := "?"
		if ne, ok := x.Name.(*kvql.NameExpr); ok {
			name = strings.ToLower(ne.Data)
		}
		if len(parts) == 0 {
			return "(call " + name + ")"
		}
		return "(call " + name + " " + strings.Join(parts, " ") + ")"
	case *kvql.FieldAccessExpr:
		var idx string
		switch f := x.FieldName.(type) {
		case *kvql.StringExpr:
			idx = strconv.Quote(f.Data)
		case *kvql.NumberExpr:
			idx = strconv.FormatInt(f.Int, 10)
		default:
			idx = "?" + engSExpr(f)
		}
		return "([] " + engSExpr(x.Left) + " " + idx + ")"
	case *kvql.FieldExpr:
		return kvql.KVKeywordToString[x.Field]
	case *kvql.StringExpr:
		return strconv.Quote(x.Data)
	case *kvql.NumberExpr:
		return strconv.FormatInt(x.Int, 10)
	case *kvql.FloatExpr:
		return "f" + strconv.FormatFloat(x.Float, 'g', -1, 64)
	case *kvql.BoolExpr:
		if x.Bool {
			return "true"
		}
		return "false"
	case *kvql.NameExpr:
		return "name:" + x.Data
	case *kvql.FieldReferenceExpr:
		return "name:" + x.Name.Data
	}
	return fmt.Sprintf("<%T>", e)
}

func checkC15(c *c15Case) (msg string, nontrivial bool, labels []string) {
	q := "select * where " + c.Text
	if c.Field {
		q = "select " + c.Text + " where 1 = 1"
	}
	lib.SetGlobals(lib.Cfg{Mode: "row", Batch: 32, Cache: true})
	var sel *kvql.SelectStmt
	var err error
	func() {
		defer func() {
			if p := recover(); p != nil {
				err = fmt.Errorf("parser panicked: %v", p)
			}
		}()
		sel, err = parseSelect(q)
	}()
	want := lib.SExpr(c.Tree)
	if err != nil {
		return fmt.Sprintf("query %q (generating tree %s) is refused: %v", q, want, err), false, labels
	}
	root := sel.Where.Expr
	if c.Field {
		root = sel.Fields[0]
	}
	got := engSExpr(root)
	if got != want {
		return fmt.Sprintf("query %q parses as\n  %s\nbut the documented precedence gives\n  %s", q, got, want), true, labels
	}
	// print -> parse fixpoint of the canonical rendering
	s1 := root.String()
	q2 := "select * where " + s1
	if c.Field {
		q2 = "select " + s1 + " where 1 = 1"
	}
	sel2, err := parseSelect(q2)
	if err != nil {
		return fmt.Sprintf("the canonical rendering %q of %q does not parse: %v", s1, q, err), true, labels
	}
	root2 := sel2.Where.Expr
	if c.Field {
		root2 = sel2.Fields[0]
	}
	if s2 := root2.String(); s2 != s1 {
		return fmt.Sprintf("canonical rendering of %q is %q but re-parsing it renders %q", q, s1, s2), true, labels
	}
	if got2 := engSExpr(root2); got2 != got {
		return fmt.Sprintf("canonical rendering %q of %q re-parses to a different tree: %s vs %s", s1, q, got2, got), true, labels
	}
	// non-trivial: at least two binary operators
	nops := c.Tree.Count(func(x *lib.Node) bool {
		return x.K == "bin" || x.K == "in" || x.K == "between" || x.K == "inlist"
	})
	return "", nops >= 2, labels
}

// ---- leg (a): operator sequences ------------------------------------------------

type c15Op struct {
	Op   string
	Prec int
}

var c15Ops = []c15Op{
	{"|", 1}, {"or", 1}, {"&", 2}, {"and", 2}, {"=", 3}, {"<", 3}, {"in", 3}, {"between", 3},
	{"+", 4}, {"-", 4}, {"*", 5}, {"/", 5},
}

// seqTree: operator sequence with placeholder leaves -> tree by independent
// precedence climbing over the documented table (left-associative).
type c15Tree struct {
	Op   string
	L, R *c15Tree
	Leaf int // leaf index when Op == ""
}

func c15Climb(ops []c15Op) *c15Tree {
	pos := 0
	var parse func(minPrec int) *c15Tree
	parse = func(minPrec int) *c15Tree {
		left := &c15Tree{Leaf: pos}
		for pos < len(ops) && ops[pos].Prec >= minPrec {
			op := ops[pos]
			pos++
			var right *c15Tree
			if op.Op == "in" || op.Op == "between" {
				right = nil // fixed right-hand side (list / bounds)
			} else {
				right = parse(op.Prec + 1)
			}
			left = &c15Tree{Op: op.Op, L: left, R: right}
		}
		return left
	}
	return parse(1)
}

// c15Type assigns leaves so that the tree is well-typed; ok=false when the
// documented tree cannot be typed (every correct parser must refuse it).
// want: 'b' Bool, 'n' number, 't' text, 'c' comparable (number or text)
func c15Type(t *c15Tree, want byte, alt int) (*lib.Node, bool) {
	if t.Op == "" {
		switch want {
		case 'b':
			if alt%3 == 1 {
				return lib.Not(lib.Call("is_int", lib.Value())), true
			}
			return lib.Call("is_int", lib.Value()), true
		case 'n', 'c':
			switch (alt + t.Leaf) % 4 {
			case 0:
				return lib.Int(int64(t.Leaf + 1)), true
			case 1:
				return lib.Call("int", lib.Value()), true
			case 2:
				return lib.Call("strlen", lib.Key()), true
			}
			return lib.Float("1.5"), true
		case 't':
			switch (alt + t.Leaf) % 3 {
			case 0:
				return lib.Key(), true
			case 1:
				return lib.Str("a"), true
			}
			return lib.Index(lib.Call("split", lib.Value(), lib.Str(",")), 0), true
		}
		return nil, false
	}
	switch t.Op {
	case "|", "or", "&", "and":
		if want != 'b' {
			return nil, false
		}
		l, ok1 := c15Type(t.L, 'b', alt)
		r, ok2 := c15Type(t.R, 'b', alt+1)
		if !ok1 || !ok2 {
			return nil, false
		}
		return lib.Bin(t.Op, l, r), true
	case "=", "<":
		if want != 'b' {
			return nil, false
		}
		// operand class: forced by sub-trees, otherwise alternate
		for _, cls := range []byte{'n', 't', 'b'} {
			if cls == 'b' && t.Op != "=" {
				continue
			}
			if cls == 't' && alt%2 == 0 && c15Plain(t.L) && c15Plain(t.R) {
				continue
			}
			l, ok1 := c15Type(t.L, cls, alt)
			r, ok2 := c15Type(t.R, cls, alt+1)
			if ok1 && ok2 {
				if l.K == "not" || r.K == "not" {
					continue // !x is not accepted as a comparison operand
				}
				if l.K == "key" && r.K == "key" {
					r = lib.Str("b")
				}
				return lib.Bin(t.Op, l, r), true
			}
		}
		return nil, false
	case "in":
		if want != 'b' {
			return nil, false
		}
		if l, ok := c15Type(t.L, 'n', alt); ok {
			return lib.In(l, lib.Int(1), lib.Int(2)), true
		}
		if l, ok := c15Type(t.L, 't', alt); ok {
			return lib.In(l, lib.Str("a"), lib.Str("b")), true
		}
		return nil, false
	case "between":
		if want != 'b' {
			return nil, false
		}
		if l, ok := c15Type(t.L, 'n', alt); ok {
			return lib.Between(l, lib.Int(1), lib.Bin("+", lib.Int(2), lib.Int(3))), true
		}
		if l, ok := c15Type(t.L, 't', alt); ok {
			return lib.Between(l, lib.Str("a"), lib.Str("b")), true
		}
		return nil, false
	case "+":
		if want == 't' {
			l, ok1 := c15Type(t.L, 't', alt)
			r, ok2 := c15Type(t.R, 't', alt+1)
			if ok1 && ok2 {
				return lib.Bin("+", l, r), true
			}
			return nil, false
		}
		fallthrough
	case "-", "*", "/":
		if want != 'n' && want != 'c' {
			return nil, false
		}
		l, ok1 := c15Type(t.L, 'n', alt)
		r, ok2 := c15Type(t.R, 'n', alt+1)
		if !ok1 || !ok2 {
			return nil, false
		}
		if t.Op == "/" && (r.K == "int" && r.I == 0) {
			r = lib.Int(2)
		}
		return lib.Bin(t.Op, l, r), true
	}
	return nil, false
}

func c15Plain(t *c15Tree) bool { return t.Op == "" }

// flat rendering of the sequence: no parentheses at all between operands.
func c15Flat(n *lib.Node, style *lib.RenderStyle) string {
	return lib.RenderStyled(n, style)
}

func c15Run(t lib.Fataler, c *c15Case, enum bool, extra ...string) {
	lib.Journal("C15", "c15", c)
	msg, nt, labels := checkC15(c)
	labels = append(labels, extra...)
	sample := func() any { return c.Text }
	if enum {
		lib.Stats.EnumCase(nt, labels, sample)
	} else {
		lib.Stats.Case(nt, c.Text, labels, sample)
	}
	if msg != "" {
		fail(t, "C15", "c15", msg, c)
	}
}

// TestC15Sequences: every operator sequence x0 o1 x1 ... on xn (n <= 4,
// thorough 5) over one representative per binding level and spelling,
// written WITHOUT parentheses; the parse must be the documented tree.
func TestC15Sequences(t *testing.T) {
	lib.Stats.Exhaustive = true
	maxN := lib.Pick(4, 5)
	idx := 0
	var seq []c15Op
	var rec func()
	rec = func() {
		if len(seq) > 0 {
			idx++
			if lib.Mine(idx) {
				tree := c15Climb(seq)
				node, ok := c15Type(tree, 'b', idx)
				if !ok {
					lib.Stats.Label("untypeable-sequence-skipped")
				} else {
					// the minimal rendering of the documented tree of a flat
					// sequence contains no parentheses by construction
					text := lib.RenderStyled(node, nil)
					if strings.ContainsAny(stripCallParens(text), "()") {
						lib.Stats.Label("harness-sequence-not-flat")
					}
					c15Run(t, &c15Case{Tree: node, Text: text}, true, fmt.Sprintf("nops=%d", len(seq)))
				}
			}
		}
		if len(seq) == maxN {
			return
		}
		for _, op := range c15Ops {
			seq = append(seq, op)
			rec()
			seq = seq[:len(seq)-1]
		}
	}
	rec()
}

// stripCallParens removes the parentheses that belong to calls, IN lists and
// index expressions so that the remaining ones are grouping parentheses.
func stripCallParens(s string) string {
	for _, f := range []string{"is_int(value)", "int(value)", "strlen(key)", "split(value, ',')", "(1, 2)", "('a', 'b')"} {
		s = strings.ReplaceAll(s, f, "")
	}
	return s
}

// TestC15Trees: random typed trees rendered with minimal, random redundant
// and full parentheses and random letter case.
func TestC15Trees(t *testing.T) {
	rapid.Check(t, func(rt *rapid.T) {
		kind := lib.GenKind(rt)
		pairs := lib.GenStore(rt, kind, 4)
		ctx := &lib.GenCtx{Kind: kind, Pairs: pairs}
		field := rapid.IntRange(0, 3).Draw(rt, "asField") == 0
		var tree *lib.Node
		if field {
			ty := rapid.SampledFrom([]lib.Ty{lib.TyText, lib.TyInt, lib.TyFloat, lib.TyBool}).Draw(rt, "fieldType")
			tree = ctx.GenTyped(rt, ty, rapid.IntRange(1, 4).Draw(rt, "depth"))
		} else {
			tree = ctx.GenWhere(rt, rapid.IntRange(1, 5).Draw(rt, "depth"))
		}
		// round 10: a call argument that begins with the unary operator,
		// str(!b) - the operand of ! being anything Boolean
		if rapid.IntRange(0, 7).Draw(rt, "notAsCallArgument") == 0 {
			arg := lib.Call("str", lib.Not(ctx.GenBool(rt, rapid.IntRange(0, 2).Draw(rt, "notArgDepth"))))
			if field {
				tree = arg
			} else {
				tree = lib.Bin("=", arg, lib.Str("true"))
			}
		}
		// literals must be quote-free for the fixpoint leg
		quoteFree := true
		tree.Walk(func(n *lib.Node) {
			if (n.K == "str" || n.K == "field") && strings.ContainsAny(n.S, "'\"`") {
				quoteFree = false
			}
		})
		if !quoteFree {
			lib.Stats.Label("skipped-quote-in-literal")
			return
		}
		styleKind := rapid.IntRange(0, 3).Draw(rt, "style")
		st := &lib.RenderStyle{}
		switch styleKind {
		case 1:
			st.Extra = func() bool { return rapid.IntRange(0, 4).Draw(rt, "extraParen") == 0 }
		case 2:
			st.Full = true
		}
		if rapid.Bool().Draw(rt, "randomCase") {
			st.Word = func(w string) string {
				b := []byte(w)
				for i := range b {
					if b[i] >= 'a' && b[i] <= 'z' && rapid.Bool().Draw(rt, "upper") {
						b[i] -= 32
					}
				}
				return string(b)
			}
		}
		text := lib.RenderStyled(tree, st)
		c15Run(rt, &c15Case{Tree: tree, Text: text, Field: field}, false, fmt.Sprintf("style=%d", styleKind))
	})
}

// ---- fixpoint of whole statements with named fields --------------------------------

type c15StmtCase struct {
	Stmt  *lib.Stmt `json:"stmt"`
	Query string    `json:"query"`
}

func init() {
	registerReplay("c15stmt", func(c *c15StmtCase) string { m, _ := checkC15Stmt(c); return m })
}

// checkC15Stmt: every expression of an accepted statement (WHERE and select
// fields, names rendered as `name`) is printed canonically and re-parsed
// under the same select list; the second rendering must equal the first.
func checkC15Stmt(c *c15StmtCase) (msg string, nontrivial bool) {
	q := c.Stmt.Render()
	c.Query = q
	lib.SetGlobals(lib.Cfg{Mode: "row", Batch: 32, Cache: true})
	sel, err := parseSelect(q)
	if err != nil {
		return "", false // acceptance is C14's subject
	}
	fieldTexts := make([]string, len(sel.Fields))
	for i, f := range sel.Fields {
		fieldTexts[i] = f.String()
		if i < len(c.Stmt.Fields) && c.Stmt.Fields[i].Alias != "" {
			fieldTexts[i] += " as " + lib.SpellName(c.Stmt.Fields[i].Alias)
		}
	}
	w1 := sel.Where.Expr.String()
	q2 := "select " + strings.Join(fieldTexts, ", ") + " where " + w1
	if c.Stmt.Star {
		q2 = "select * where " + w1
	}
	sel2, err := parseSelect(q2)
	if err != nil {
		return fmt.Sprintf("statement %q renders canonically as %q, which does not parse: %v", q, q2, err), true
	}
	if w2 := sel2.Where.Expr.String(); w2 != w1 {
		return fmt.Sprintf("WHERE of %q renders as %q; re-parsing that renders %q", q, w1, w2), true
	}
	if got, want := engSExpr(sel2.Where.Expr), engSExpr(sel.Where.Expr); got != want {
		return fmt.Sprintf("WHERE of %q: canonical text %q re-parses to %s, not %s", q, w1, got, want), true
	}
	for i := range sel.Fields {
		if i >= len(sel2.Fields) {
			return fmt.Sprintf("statement %q: canonical text %q has %d select fields instead of %d", q, q2, len(sel2.Fields), len(sel.Fields)), true
		}
		if a, b := sel.Fields[i].String(), sel2.Fields[i].String(); a != b {
			return fmt.Sprintf("select field %d of %q renders as %q; re-parsing renders %q", i, q, a, b), true
		}
	}
	hasRef := c.Stmt.Where.Has(func(x *lib.Node) bool { return x.K == "ref" })
	return "", hasRef
}

func TestC15Statements(t *testing.T) {
	rapid.Check(t, func(rt *rapid.T) {
		kind := lib.GenKind(rt)
		pairs := lib.GenStore(rt, kind, 4)
		st := lib.GenSelect(rt, kind, pairs, lib.SelOpts{Aliases: true, Aggregate: 1, MinFields: 1})
		quoteFree := true
		check := func(n *lib.Node) {
			n.Walk(func(x *lib.Node) {
				if (x.K == "str" || x.K == "field") && strings.ContainsAny(x.S, "'\"`") {
					quoteFree = false
				}
			})
		}
		check(st.Where)
		for _, f := range st.Fields {
			check(f.E)
		}
		if !quoteFree {
			lib.Stats.Label("skipped-quote-in-literal")
			return
		}
		c := &c15StmtCase{Stmt: st}
		lib.Journal("C15", "c15stmt", c)
		msg, nt := checkC15Stmt(c)
		lib.Stats.Case(nt, "stmt|"+c.Query, []string{"statement-fixpoint"}, func() any { return c.Query })
		if msg != "" {
			fail(rt, "C15", "c15stmt", msg, c)
		}
	})
}

// ---- names that only back quotes can spell ---------------------------------------

type c15NameCase struct {
	Query string     `json:"query"`
	Pairs []lib.Pair `json:"pairs"`
}

func init() {
	registerReplay("c15name", func(c *c15NameCase) string { m, _ := checkC15Name(c); return m })
}

// checkC15Name: the WHERE of an accepted statement, printed canonically and
// put back behind the same select list, must parse to the same tree, print
// the same text and select the same rows. The statements use names that are
// not select fields (they evaluate to their own text) written in back quotes.
func checkC15Name(c *c15NameCase) (msg string, nontrivial bool) {
	lib.SetGlobals(lib.Cfg{Mode: "row", Batch: 32, Cache: true})
	sel, err := parseSelect(c.Query)
	if err != nil {
		return "", false
	}
	i := strings.Index(c.Query, " where ")
	if i < 0 {
		return "", false
	}
	head := c.Query[:i]
	w1 := sel.Where.Expr.String()
	q2 := head + " where " + w1
	sel2, err := parseSelect(q2)
	if err != nil {
		return fmt.Sprintf("the filter of %q prints as %q, which does not parse behind the same select list: %v", c.Query, w1, err), true
	}
	if w2 := sel2.Where.Expr.String(); w2 != w1 {
		return fmt.Sprintf("the filter of %q prints as %q; parsing that prints %q", c.Query, w1, w2), true
	}
	if a, b := engSExpr(sel.Where.Expr), engSExpr(sel2.Where.Expr); a != b {
		return fmt.Sprintf("the filter of %q prints as %q, which parses to %s instead of %s", c.Query, w1, b, a), true
	}
	for _, mode := range []string{"row", "batch"} {
		cfg := lib.Cfg{Mode: mode, Batch: 2, Cache: true}
		r1 := lib.Run(c.Query, lib.NewStore(c.Pairs), len(c.Pairs), cfg)
		r2 := lib.Run(q2, lib.NewStore(c.Pairs), len(c.Pairs), cfg)
		if r1.BuildErr != nil || r1.Failed() {
			return "", false
		}
		if r2.BuildErr != nil || r2.Failed() || !lib.EqualRows(r1.Rows, r2.Rows) {
			return fmt.Sprintf("statement %q [%s] returns %s; with its filter as printed, %q: %s", c.Query, cfg, lib.ShowRows(r1.Rows), q2, r2.Describe()), true
		}
	}
	return "", true
}

// TestC15Names: names in back quotes (capitals, blanks, operator characters,
// keywords, numbers) as function arguments, list items and operands.
func TestC15Names(t *testing.T) {
	lib.Stats.Exhaustive = true
	pairs := []lib.Pair{{K: "a", V: "1"}, {K: "k3", V: "x y"}, {K: "key", V: "2"}, {K: "Foo", V: "foo"}}
	names := []string{"key", "value", "Foo", "a b", "1+1", "select", "and", "V", "x", "12", "a-b", "true", "Key"}
	heads := []string{"select *", "select key, value as v", "select key as k, upper(value) as `V`"}
	shapes := []string{
		"str(`%s`) = '%s'",
		"upper(`%s`) != 'ZZ'",
		"key in list(`%s`, 'a')",
		"`%s` + 'x' = value",
		"!(strlen(`%s`) > 2)",
		"join('-', `%s`, key) ^= 'k'",
	}
	// every name of up to two (thorough: three) characters over the characters
	// that matter to the lexer: whatever cannot be written bare must come
	// back in back quotes
	const nameAlphabet = "aB1 ,;()[]'\"+-=!<^~&|*/.\t"
	var enum []string
	var rec func(prefix string, depth int)
	rec = func(prefix string, depth int) {
		if prefix != "" {
			enum = append(enum, prefix)
		}
		if depth == 0 {
			return
		}
		for i := 0; i < len(nameAlphabet); i++ {
			rec(prefix+nameAlphabet[i:i+1], depth-1)
		}
	}
	rec("", lib.Pick(2, 3))
	type nameCase struct{ head, name, shape string }
	var cases []nameCase
	for _, h := range heads {
		for _, nm := range names {
			for _, sh := range shapes {
				cases = append(cases, nameCase{h, nm, sh})
			}
		}
	}
	for _, nm := range enum {
		for _, sh := range shapes {
			cases = append(cases, nameCase{heads[0], nm, strings.ReplaceAll(sh, "'%s'", "'zz'")})
		}
	}
	idx := 0
	{
		{
			for _, nc := range cases {
				h, nm, sh := nc.head, nc.name, nc.shape
				idx++
				if !lib.Mine(idx) {
					continue
				}
				q := h + " where " + strings.ReplaceAll(sh, "%s", nm)
				c := &c15NameCase{Query: q, Pairs: pairs}
				lib.Journal("C15", "c15name", c)
				msg, nt := checkC15Name(c)
				lib.Stats.EnumCase(nt, []string{"backquoted-name"}, func() any { return map[string]any{"query": q} })
				if msg != "" {
					fail(t, "C15", "c15name", msg, c)
				}
			}
		}
	}
}
