package checks

import (
	"errors"
	"fmt"
	"math"
	"strconv"
	"strings"
	"testing"

	"github.com/c4pt0r/kvql"
	"pgregory.net/rapid"

	"verif/lib"
)

// C04 — constant folding and expression rewriting preserve every
// expression's value and kind.

type c04Case struct {
	E     *lib.Node  `json:"e"` // select field
	W     *lib.Node  `json:"w"` // where
	Pairs []lib.Pair `json:"pairs"`
	Query string     `json:"query"`
}

func init() { registerReplay("c04", func(c *c04Case) string { m, _, _ := checkC04(c); return m }) }

var c04Pairs = []lib.Pair{
	{K: "a", V: "0"}, {K: "ab", V: "3"}, {K: "b", V: "10"}, {K: "ba", V: "-2"},
	{K: "c", V: "0.5"}, {K: "ca", V: "2.25"}, {K: "d", V: "1.5"},
	// values that are not exactly representable: (x * 3) * 7 and x * 21, (x +
	// 1) + 2 and x + 3 differ in the last place for them
	{K: "e", V: "0.1"}, {K: "ea", V: "0.3"}, {K: "f", V: "0.7"}, {K: "fa", V: "2.675"},
}

func parseSelect(q string) (*kvql.SelectStmt, error) {
	st, err := kvql.NewParser(q).Parse()
	if err != nil {
		return nil, err
	}
	sel, ok := st.(*kvql.SelectStmt)
	if !ok {
		return nil, fmt.Errorf("not a select statement")
	}
	return sel, nil
}

func safeExec(e kvql.Expression, kv kvql.KVPair) (v any, err error, pan string) {
	defer func() {
		if p := recover(); p != nil {
			pan = fmt.Sprint(p)
		}
	}()
	v, err = e.Execute(kv, kvql.NewExecuteCtx())
	return lib.Norm(v), err, ""
}

func safeExecBatch(e kvql.Expression, chunk []kvql.KVPair) (vs []any, err error, pan string) {
	defer func() {
		if p := recover(); p != nil {
			pan = fmt.Sprint(p)
		}
	}()
	raw, err := e.ExecuteBatch(chunk, kvql.NewExecuteCtx())
	if err != nil {
		return nil, err, ""
	}
	vs = make([]any, len(raw))
	for i, r := range raw {
		vs[i] = lib.Norm(r)
	}
	return vs, nil, ""
}

func safeOptimize(e kvql.Expression) (out kvql.Expression, pan string) {
	defer func() {
		if p := recover(); p != nil {
			pan = fmt.Sprint(p)
		}
	}()
	o := kvql.ExpressionOptimizer{Root: e}
	return o.Optimize(), ""
}

func checkC04(c *c04Case) (msg string, nontrivial bool, labels []string) {
	st := &lib.Stmt{Kind: "select", Fields: []lib.SelField{{E: c.E}}, Where: c.W}
	q := st.Render()
	c.Query = q
	lib.SetGlobals(lib.Cfg{Mode: "row", Batch: 32, Cache: true})
	a, err := parseSelect(q)
	if err != nil {
		return "", false, []string{"rejected-by-engine"}
	}
	b, err := parseSelect(q)
	if err != nil {
		return "", false, []string{"rejected-by-engine"}
	}
	type leg struct {
		name string
		a, b kvql.Expression
		n    *lib.Node
	}
	legs := []leg{{"select field", a.Fields[0], b.Fields[0], c.E}, {"where clause", a.Where.Expr, b.Where.Expr, c.W}}
	chunk := make([]kvql.KVPair, len(c.Pairs))
	for i, p := range c.Pairs {
		chunk[i] = kvql.NewKVPStr(p.K, p.V)
	}
	for _, l := range legs {
		before := l.a.String()
		opt, pan := safeOptimize(l.b)
		if pan != "" {
			return fmt.Sprintf("rewriting the %s of %q panicked: %s", l.name, q, pan), false, labels
		}
		after := opt.String()
		rewritten := before != after
		if rewritten {
			labels = append(labels, "rewritten")
		}
		anyEvaluable := false
		for i, p := range c.Pairs {
			va, ea, pa := safeExec(l.a, chunk[i])
			if pa != "" {
				return fmt.Sprintf("%s %s of %q panicked on (%q,%q): %s", l.name, before, q, p.K, p.V, pa), false, labels
			}
			if ea != nil {
				continue // the original does not evaluate here: nothing is claimed
			}
			if _, rerr := lib.Eval(l.n, &lib.Env{K: p.K, V: p.V}); errors.Is(rerr, lib.ErrMagnitude) {
				// the original only "evaluates" by wrapping around int64 (or
				// rounding beyond 2^53): not a value the rewrite must preserve
				labels = append(labels, "skipped-overflowing-original")
				continue
			}
			anyEvaluable = true
			vb, eb, pb := safeExec(opt, chunk[i])
			if pb != "" {
				return fmt.Sprintf("rewritten %s %s of %q panicked on (%q,%q): %s", l.name, after, q, p.K, p.V, pb), false, labels
			}
			if eb != nil {
				return fmt.Sprintf("%s of %q: original %s evaluates to %s on (%q,%q) but the rewritten %s fails: %v", l.name, q, before, lib.Show(va), p.K, p.V, after, eb), rewritten, labels
			}
			if !lib.EqualVal(va, vb) {
				return fmt.Sprintf("%s of %q on (%q,%q): original %s = %s, rewritten %s = %s", l.name, q, p.K, p.V, before, lib.Show(va), after, lib.Show(vb)), rewritten, labels
			}
			// third leg: the reference evaluator on the generating tree
			if want, err := lib.Eval(l.n, &lib.Env{K: p.K, V: p.V}); err == nil {
				if !lib.EqualVal(want, va) {
					return fmt.Sprintf("%s of %q on (%q,%q): engine (un-rewritten) gives %s, reference %s", l.name, q, p.K, p.V, lib.Show(va), lib.Show(want)), rewritten, labels
				}
			}
		}
		// batch form on the pairs where the original evaluates pair by pair
		vas, ea, pa := safeExecBatch(l.a, chunk)
		if pa != "" {
			return fmt.Sprintf("%s %s of %q panicked in batch form: %s", l.name, before, q, pa), false, labels
		}
		if ea == nil {
			vbs, eb, pb := safeExecBatch(opt, chunk)
			if pb != "" {
				return fmt.Sprintf("rewritten %s %s of %q panicked in batch form: %s", l.name, after, q, pb), false, labels
			}
			if eb != nil {
				return fmt.Sprintf("%s of %q: original %s evaluates in batch form but the rewritten %s fails: %v", l.name, q, before, after, eb), rewritten, labels
			}
			for i := range vas {
				if _, rerr := lib.Eval(l.n, &lib.Env{K: c.Pairs[i].K, V: c.Pairs[i].V}); errors.Is(rerr, lib.ErrMagnitude) {
					continue
				}
				if !lib.EqualVal(vas[i], vbs[i]) {
					return fmt.Sprintf("%s of %q, batch form, pair (%q,%q): original %s = %s, rewritten %s = %s", l.name, q, c.Pairs[i].K, c.Pairs[i].V, before, lib.Show(vas[i]), after, lib.Show(vbs[i])), rewritten, labels
				}
			}
		}
		if rewritten && anyEvaluable {
			nontrivial = true
		}
	}
	// end-to-end: rows of the full query (optimizer on) equal the reference
	// (on the pairs on which the reference evaluator defines both expressions)
	var epairs []lib.Pair
	for _, p := range c.Pairs {
		_, e1 := lib.Eval(c.E, &lib.Env{K: p.K, V: p.V})
		_, e2 := lib.Eval(c.W, &lib.Env{K: p.K, V: p.V})
		if e1 == nil && e2 == nil {
			epairs = append(epairs, p)
		}
	}
	ref, err := lib.RefSelect(st, epairs)
	if err == nil && len(epairs) > 0 {
		want := make([][]any, len(ref))
		for i, r := range ref {
			want[i] = r.Cols
		}
		for _, mode := range []string{"row", "batch"} {
			cfg := lib.Cfg{Mode: mode, Batch: 3, Cache: true}
			res := lib.Run(q, lib.NewStore(epairs), len(epairs), cfg)
			if res.BuildErr != nil {
				labels = append(labels, "rejected-by-engine")
				break
			}
			if res.Failed() {
				return fmt.Sprintf("query %q [%s]: reference gives %s, engine: %s", q, cfg, lib.ShowRows(want), res.Describe()), nontrivial, labels
			}
			if !lib.EqualRows(res.Rows, want) {
				return fmt.Sprintf("query %q [%s]:\n  reference (un-rewritten text) %s\n  engine                       %s", q, cfg, lib.ShowRows(want), lib.ShowRows(res.Rows)), nontrivial, labels
			}
		}
	} else {
		labels = append(labels, "no-reference")
	}
	return "", nontrivial, labels
}

func c04NumLeaves() []*lib.Node {
	return []*lib.Node{
		lib.Int(0), lib.Int(1), lib.Int(2), lib.Int(3), lib.Int(7),
		lib.Float("0.5"), lib.Float("1.5"), lib.Float("2.0"), lib.Float("0.25"),
		lib.Call("int", lib.Value()), lib.Call("float", lib.Value()), lib.Call("strlen", lib.Key()),
		// constant calls that fold: a whole float must stay a float
		lib.Call("float", lib.Int(3)), lib.Call("float", lib.Str("2")), lib.Call("int", lib.Str("7")),
		// floats that are not exactly representable: (x + 0.1) + 0.2 is not x + (0.1 + 0.2)
		lib.Float("0.1"), lib.Float("0.2"),
	}
}

func c04Run(t lib.Fataler, c *c04Case, enum bool, extra ...string) {
	lib.Journal("C04", "c04", c)
	msg, nt, labels := checkC04(c)
	labels = append(labels, extra...)
	sample := func() any { return c.Query }
	if enum {
		lib.Stats.EnumCase(nt, labels, sample)
	} else {
		lib.Stats.Case(nt, c.Query, labels, sample)
	}
	if msg != "" {
		fail(t, "C04", "c04", msg, c)
	}
}

// checkC04Named runs `select e as c1, c1 as c2, str(c1 + 0 * 1) ..` - the
// named field, a field that is only its name, and a field that uses the name
// - and demands the value the reference gives e on every pair.
func checkC04Named(e *lib.Node) string {
	st := &lib.Stmt{Kind: "select", Fields: []lib.SelField{
		{E: e.Clone(), Alias: "c1"},
		{E: lib.Ref("c1", e.T), Alias: "c2"},
		{E: lib.Bin("+", lib.Ref("c1", e.T), lib.Int(0)), Alias: "c3"},
	}, Where: lib.Bin("!=", lib.Key(), lib.Str("zz"))}
	q := st.Render()
	var epairs []lib.Pair
	var want []any
	for _, p := range c04Pairs {
		v, err := lib.Eval(e, &lib.Env{K: p.K, V: p.V})
		if err != nil {
			continue
		}
		epairs = append(epairs, p)
		want = append(want, v)
	}
	if len(epairs) == 0 {
		return ""
	}
	for _, cfg := range []lib.Cfg{{Mode: "row", Batch: 32, Cache: true}, {Mode: "batch", Batch: 3, Cache: true}, {Mode: "row", Batch: 32, Cache: false}} {
		res := lib.Run(q, lib.NewStore(epairs), len(epairs), cfg)
		if res.BuildErr != nil {
			return ""
		}
		if res.Failed() {
			return fmt.Sprintf("query %q [%s]: %s (the reference evaluates the field on every pair)", q, cfg, res.Describe())
		}
		if len(res.Rows) != len(epairs) {
			return fmt.Sprintf("query %q [%s]: %d rows for %d pairs", q, cfg, len(res.Rows), len(epairs))
		}
		for i, r := range res.Rows {
			w3, err := lib.Eval(lib.Bin("+", e, lib.Int(0)), &lib.Env{K: epairs[i].K, V: epairs[i].V})
			if err != nil {
				continue
			}
			if !lib.EqualVal(want[i], r[0]) || !lib.EqualVal(want[i], r[1]) || !lib.EqualVal(w3, r[2]) {
				return fmt.Sprintf("query %q [%s] on (%q,%q): the field is %s as written; the engine shows c1 = %s, c2 (its name) = %s, c3 (its name + 0) = %s", q, cfg, epairs[i].K, epairs[i].V, lib.Show(want[i]), lib.Show(r[0]), lib.Show(r[1]), lib.Show(r[2]))
			}
		}
	}
	lib.Stats.Label("named-field-and-uses")
	return ""
}

// checkC04NamedText: a text chain that is continued behind its name.
func checkC04NamedText(ab, c *lib.Node) string {
	st := &lib.Stmt{Kind: "select", Fields: []lib.SelField{
		{E: ab.Clone(), Alias: "c1"},
		{E: lib.Ref("c1", lib.TyText), Alias: "c2"},
		{E: lib.Bin("+", lib.Ref("c1", lib.TyText), c.Clone()), Alias: "c3"},
	}, Where: lib.Bin("!=", lib.Key(), lib.Str("zz"))}
	q := st.Render()
	for _, cfg := range []lib.Cfg{{Mode: "row", Batch: 32, Cache: true}, {Mode: "batch", Batch: 3, Cache: true}, {Mode: "row", Batch: 32, Cache: false}} {
		res := lib.Run(q, lib.NewStore(c04Pairs), len(c04Pairs), cfg)
		if res.BuildErr != nil {
			lib.Stats.Label("named-text-chain-rejected")
			return ""
		}
		if res.Failed() {
			return fmt.Sprintf("query %q [%s]: %s", q, cfg, res.Describe())
		}
		if len(res.Rows) != len(c04Pairs) {
			return fmt.Sprintf("query %q [%s]: %d rows for %d pairs", q, cfg, len(res.Rows), len(c04Pairs))
		}
		for i, r := range res.Rows {
			env := &lib.Env{K: c04Pairs[i].K, V: c04Pairs[i].V}
			w1, err1 := lib.Eval(ab, env)
			w3, err3 := lib.Eval(lib.Bin("+", ab, c), env)
			if err1 != nil || err3 != nil {
				continue
			}
			if !lib.EqualVal(w1, r[0]) || !lib.EqualVal(w1, r[1]) || !lib.EqualVal(w3, r[2]) {
				return fmt.Sprintf("query %q [%s] on (%q,%q): c1 is %s as written and c3 is %s; the engine shows c1 = %s, c2 (its name) = %s, c3 = %s", q, cfg, c04Pairs[i].K, c04Pairs[i].V, lib.Show(w1), lib.Show(w3), lib.Show(r[0]), lib.Show(r[1]), lib.Show(r[2]))
			}
		}
	}
	lib.Stats.Label("named-text-chain")
	return ""
}

// c04BoundaryLiteral: the value of e on one of the pairs (chosen by n) as a
// literal, when it is a non-negative number that can be written down.
func c04BoundaryLiteral(e *lib.Node, n int) *lib.Node {
	for i := range c04Pairs {
		p := c04Pairs[(i+n)%len(c04Pairs)]
		v, err := lib.Eval(e, &lib.Env{K: p.K, V: p.V})
		if err != nil {
			continue
		}
		switch x := v.(type) {
		case int64:
			if x >= 0 {
				return lib.Int(x)
			}
		case float64:
			if x >= 0 && !math.Signbit(x) && x < 1e15 { // (-0 is >= 0 and is written with a sign)
				t := strconv.FormatFloat(x, 'f', -1, 64)
				if !strings.Contains(t, ".") {
					t += ".0"
				}
				return lib.Float(t)
			}
		}
	}
	return nil
}

var c04True = func() *lib.Node { return lib.Bin("=", lib.Int(1), lib.Int(1)) }

// TestC04Arith: every arithmetic shape of depth <= 2 over the constant pool
// and the row-dependent leaves, as a select field; and as an operand of a
// comparison in WHERE.
func TestC04Arith(t *testing.T) {
	lib.Stats.Exhaustive = true
	leaves := c04NumLeaves()
	ops := []string{"+", "-", "*", "/"}
	idx := 0
	emit := func(e *lib.Node, tag string) {
		idx++
		if !lib.Mine(idx) {
			return
		}
		if idx%2 == 0 {
			c04Run(t, &c04Case{E: e, W: c04True(), Pairs: c04Pairs}, true, tag, "as-field")
		} else {
			w := lib.Bin(">", lib.Call("float", lib.Value()), e)
			c04Run(t, &c04Case{E: lib.Key(), W: w, Pairs: c04Pairs}, true, tag, "in-where")
		}
		// under a name: the field and every use of its name show the same value
		// (the rewrite folds the field; a use of the name may still look at
		// the expression as it was written)
		if idx%4 == 0 {
			if m := checkC04Named(e); m != "" {
				fail(t, "C04", "c04", m, &c04Case{E: e, W: c04True(), Pairs: c04Pairs})
			}
		}
		// on the boundary: `e = v` and `e >= v` with v the value that e has on
		// one of the pairs - a rewrite that moves e by one unit in the last
		// place (only done below a Boolean root, say) changes the rows selected
		if lit := c04BoundaryLiteral(e, idx); lit != nil {
			op := []string{"=", ">=", "<="}[idx%3]
			c04Run(t, &c04Case{E: lib.Key(), W: lib.Bin(op, e.Clone(), lit), Pairs: c04Pairs}, true, tag, "in-where-on-the-boundary")
		}
	}
	zeroLit := func(n *lib.Node) bool { return (n.K == "int" && n.I == 0) || (n.K == "float" && n.F == 0) }
	for _, a := range leaves {
		for _, b := range leaves {
			for _, op := range ops {
				if op == "/" && zeroLit(b) {
					continue // refused statically (literal zero divisor)
				}
				ab := lib.Bin(op, a, b)
				emit(ab, "depth=1")
				for _, cN := range leaves {
					for _, op2 := range ops {
						if !lib.Thorough() && (idx+int(cN.I))%3 != 0 {
							idx++
							continue
						}
						if op2 == "/" && zeroLit(cN) {
							continue
						}
						emit(lib.Bin(op2, ab, cN), "depth=2-left")
						if !(op2 == "/" && false) {
							emit(lib.Bin(op2, cN, ab), "depth=2-right")
						}
					}
				}
			}
		}
	}
	if !lib.Thorough() {
		lib.Stats.Exhaustive = false
		lib.Stats.Note("quick tier covers a third of the depth-2 arithmetic shapes; the thorough tier covers all")
	}
}

// TestC04Bool: constant comparisons, Boolean simplification with true/false
// on either side, constant calls, text folding and re-association.
func TestC04Bool(t *testing.T) {
	lib.Stats.Exhaustive = true
	consts := []*lib.Node{lib.Int(0), lib.Int(1), lib.Int(3), lib.Float("0.5"), lib.Float("1.5"), lib.Float("3.0")}
	cmps := []string{"=", "!=", "<", "<=", ">", ">="}
	rowPreds := []*lib.Node{
		lib.Bin(">", lib.Call("float", lib.Value()), lib.Int(1)),
		lib.Bin("^=", lib.Key(), lib.Str("a")),
		lib.Call("is_int", lib.Value()),
		lib.Not(lib.Bin("=", lib.Key(), lib.Str("b"))),
	}
	idx := 0
	var constBools []*lib.Node
	for _, a := range consts {
		for _, b := range consts {
			for _, op := range cmps {
				constBools = append(constBools, lib.Bin(op, a, b))
			}
		}
	}
	constBools = append(constBools,
		lib.Bin("=", lib.Str("a"), lib.Str("a")), lib.Bin("<", lib.Str("b"), lib.Str("a")),
		lib.Call("is_int", lib.Str("12")), lib.Call("is_int", lib.Str("x")), lib.Call("is_float", lib.Str("1.5")),
		lib.Bin("=", lib.Call("upper", lib.Str("a")), lib.Str("A")),
		lib.Bin("=", lib.Call("strlen", lib.Str("ab")), lib.Int(2)),
		lib.Bin("=", lib.Call("int", lib.Str("5")), lib.Int(5)),
		lib.Bin(">", lib.Call("float", lib.Str("1.5")), lib.Int(1)),
		lib.Bin("=", lib.Call("str", lib.Int(3)), lib.Str("3")),
	)
	for _, cb := range constBools {
		for _, rp := range rowPreds {
			for _, op := range []string{"&", "|"} {
				for _, left := range []bool{true, false} {
					idx++
					if !lib.Mine(idx) {
						continue
					}
					w := lib.Bin(op, cb, rp)
					if !left {
						w = lib.Bin(op, rp, cb)
					}
					c04Run(t, &c04Case{E: lib.Key(), W: w, Pairs: c04Pairs}, true, "const-bool-"+op)
				}
			}
		}
		for _, cb2 := range constBools[:12] {
			idx++
			if lib.Mine(idx) {
				c04Run(t, &c04Case{E: lib.Key(), W: lib.Bin("&", cb, cb2), Pairs: c04Pairs}, true, "const-const")
			}
		}
		idx++
		if lib.Mine(idx) {
			// a constant Boolean as a select field
			c04Run(t, &c04Case{E: cb, W: c04True(), Pairs: c04Pairs}, true, "const-bool-field")
		}
	}
	// text: folding and re-association of + chains, constant calls
	// (the last three are numbers: a text chain with a number in it is refused
	// today and counted as rejected; should it ever be accepted, whatever it
	// then means must survive the rewrite like every accepted expression)
	texts := []*lib.Node{lib.Str(""), lib.Str("a"), lib.Str("b"), lib.Key(), lib.Value(), lib.Call("upper", lib.Str("a")), lib.Call("lower", lib.Key()), lib.Call("str", lib.Int(3)),
		lib.Int(1), lib.Int(2), lib.Call("strlen", lib.Key())}
	// round 11: two constant calls whose canonical renderings coincide (the
	// engine prints a literal between single quotes without escaping): one
	// item that holds `', '`, written with the other quote character, and the
	// two items it looks like. Whatever is remembered about the one must not
	// answer for the other.
	texts = append(texts, lib.Call("join", lib.Str("-"), lib.Str("a', 'b")), lib.Call("join", lib.Str("-"), lib.Str("a"), lib.Str("b")))
	for _, a := range texts {
		for _, b := range texts {
			for _, cN := range texts {
				idx++
				if !lib.Mine(idx) {
					continue
				}
				e := lib.Bin("+", lib.Bin("+", a, b), cN)
				if idx%2 == 0 {
					e = lib.Bin("+", a, lib.Bin("+", b, cN))
				}
				c04Run(t, &c04Case{E: e, W: lib.Bin("!=", e, lib.Str("ab")), Pairs: c04Pairs}, true, "text-chain")
				// round 10: the chain goes on behind a name, `a + b as c1, c1 as
				// c2, c1 + c as c3` - merging the constants of the two chains
				// must leave c1 what it was
				if a.T == lib.TyText && b.T == lib.TyText && cN.T == lib.TyText {
					if m := checkC04NamedText(lib.Bin("+", a, b), cN); m != "" {
						fail(t, "C04", "c04", m, &c04Case{E: e, W: c04True(), Pairs: c04Pairs})
					}
				}
			}
		}
	}
}

// ---- aggregate fields: the statement with and without the rewrite ------------

type c04AggrCase struct {
	Const *lib.Node `json:"const"` // constant Boolean the simplification acts on
	Aggr  *lib.Node `json:"aggr"`  // Boolean operand that holds an aggregate function
	Op    string    `json:"op"`
	Left  bool      `json:"left"` // the constant is the left operand
	Wrap  bool      `json:"wrap"` // the whole field inside str()
	Query string    `json:"query"`
}

func init() {
	registerReplay("c04aggr", func(c *c04AggrCase) string { m, _ := checkC04Aggr(c); return m })
}

// checkC04Aggr: `C op A` with a constant C that lets the simplification drop
// or keep A, A holding an aggregate function. The same field with C written
// as a predicate of the pair that the rewrite cannot fold (strlen(key) >= 0
// for true, strlen(key) < 0 for false) is the statement "without the rewrite":
// both must show the same rows (one per group).
func checkC04Aggr(c *c04AggrCase) (msg string, nontrivial bool) {
	cv, err := lib.Eval(c.Const, &lib.Env{K: "k", V: "0"})
	if err != nil {
		return "", false
	}
	truth, ok := cv.(bool)
	if !ok {
		return "", false
	}
	opaque := lib.Bin(">=", lib.Call("strlen", lib.Key()), lib.Int(0))
	if !truth {
		opaque = lib.Bin("<", lib.Call("strlen", lib.Key()), lib.Int(0))
	}
	mk := func(k *lib.Node) string {
		e := lib.Bin(c.Op, k, c.Aggr.Clone())
		if !c.Left {
			e = lib.Bin(c.Op, c.Aggr.Clone(), k)
		}
		if c.Wrap {
			e = lib.Call("str", e)
		}
		st := &lib.Stmt{Kind: "select", Fields: []lib.SelField{{E: e}}, Where: lib.Bin("!=", lib.Key(), lib.Str("zz"))}
		return st.Render()
	}
	q, plain := mk(c.Const.Clone()), mk(opaque)
	c.Query = q
	for _, cfg := range []lib.Cfg{{Mode: "row", Batch: 32, Cache: true}, {Mode: "batch", Batch: 2, Cache: true}} {
		ra := lib.Run(q, lib.NewStore(c04Pairs), len(c04Pairs), cfg)
		rb := lib.Run(plain, lib.NewStore(c04Pairs), len(c04Pairs), cfg)
		if rb.BuildErr != nil || rb.Failed() {
			return "", false // the comparison statement is not available
		}
		if ra.BuildErr != nil {
			return fmt.Sprintf("%q is refused (%v) although the same field with the constant written as %s is answered: %s", q, ra.BuildErr, opaque.Render(), lib.ShowRows(rb.Rows)), true
		}
		if ra.Failed() {
			return fmt.Sprintf("%q [%s]: %s; with the constant written as %s: %s", q, cfg, ra.Describe(), opaque.Render(), lib.ShowRows(rb.Rows)), true
		}
		if !lib.EqualRows(ra.Rows, rb.Rows) {
			return fmt.Sprintf("%q [%s] returns %s; with the constant written as %s (no rewrite possible) it returns %s", q, cfg, lib.ShowRows(ra.Rows), opaque.Render(), lib.ShowRows(rb.Rows)), true
		}
	}
	return "", true
}

// TestC04AggrFields: constant Booleans x operands holding an aggregate x
// & | and or x either side x bare / inside str().
func TestC04AggrFields(t *testing.T) {
	lib.Stats.Exhaustive = true
	consts := []*lib.Node{
		lib.Bool(true), lib.Bool(false), lib.Bin("=", lib.Int(1), lib.Int(1)), lib.Bin("=", lib.Int(1), lib.Int(2)),
		lib.Bin(">", lib.Float("1.5"), lib.Int(1)), lib.Bin("<", lib.Str("b"), lib.Str("a")),
		lib.Call("is_int", lib.Str("12")), lib.Not(lib.Bin("=", lib.Int(1), lib.Int(1))),
	}
	cnt := func() *lib.Node { return lib.Call("count", lib.Int(1)) }
	aggrs := []*lib.Node{
		lib.Bin(">", cnt(), lib.Int(100)),
		lib.Bin("<=", cnt(), lib.Int(100)),
		lib.Not(lib.Bin(">", cnt(), lib.Int(5))),
		lib.Not(lib.Not(lib.Bin(">", lib.Call("sum", lib.Call("strlen", lib.Key())), lib.Int(3)))),
		lib.Bin("=", lib.Call("str", cnt()), lib.Str("7")),
		lib.Call("is_int", lib.Call("str", lib.Call("max", lib.Call("strlen", lib.Key())))),
		lib.In(cnt(), lib.Int(7), lib.Int(8)),
		lib.Between(lib.Call("min", lib.Call("strlen", lib.Key())), lib.Int(0), lib.Int(1)),
		lib.Bin("&", lib.Bin(">", cnt(), lib.Int(1)), lib.Bin("=", lib.Int(1), lib.Int(1))),
	}
	idx := 0
	for _, k := range consts {
		for _, a := range aggrs {
			for _, op := range []string{"&", "|", "and", "or"} {
				for _, left := range []bool{true, false} {
					for _, wrap := range []bool{false, true} {
						idx++
						if !lib.Mine(idx) {
							continue
						}
						c := &c04AggrCase{Const: k, Aggr: a, Op: op, Left: left, Wrap: wrap}
						lib.Journal("C04", "c04aggr", c)
						msg, nt := checkC04Aggr(c)
						lib.Stats.EnumCase(nt, []string{"aggregate-field", "aggregate-field-" + op}, func() any { return c.Query })
						if msg != "" {
							fail(t, "C04", "c04aggr", msg, c)
						}
					}
				}
			}
		}
	}
}

// TestC04Sampled: deeper typed expressions with constant sub-trees.
func TestC04Sampled(t *testing.T) {
	rapid.Check(t, func(rt *rapid.T) {
		kind := rapid.SampledFrom([]lib.StoreKind{lib.KInt, lib.KFloat, lib.KWord}).Draw(rt, "kind")
		pairs := lib.GenStore(rt, kind, rapid.SampledFrom([]int{1, 3, 6, 10}).Draw(rt, "n"))
		if len(pairs) == 0 {
			pairs = []lib.Pair{{K: "a", V: "1"}}
		}
		ctx := &lib.GenCtx{Kind: kind, Pairs: pairs}
		ty := rapid.SampledFrom([]lib.Ty{lib.TyText, lib.TyInt, lib.TyFloat, lib.TyBool}).Draw(rt, "type")
		e := ctx.GenTyped(rt, ty, rapid.IntRange(1, 4).Draw(rt, "depth"))
		w := ctx.GenBool(rt, rapid.IntRange(0, 3).Draw(rt, "wdepth"))
		c04Run(rt, &c04Case{E: e, W: w, Pairs: pairs}, false, "sampled")
	})
}
