package checks

import (
	"bufio"
	"fmt"
	"os"
	"strings"
	"testing"

	"verif/lib"
)

// TestProbe (VERIF_PROBE=<file with one query per line>) prints what the
// engine does with each query over a small fixed store. Triage helper.
func TestProbe(t *testing.T) {
	path := os.Getenv("VERIF_PROBE")
	if path == "" {
		t.Skip("triage helper")
	}
	f, err := os.Open(path)
	if err != nil {
		t.Fatal(err)
	}
	defer f.Close()
	pairs := []lib.Pair{{K: "a", V: "1"}, {K: "ab", V: "2"}, {K: "abc", V: "3"}, {K: "b", V: "4"}, {K: "ba", V: "5"}, {K: "c", V: "6"}}
	if os.Getenv("VERIF_PROBE_STORE") == "json" {
		pairs = []lib.Pair{{K: "a", V: `{"a": 1, "s": "x", "arr": [1,2]}`}, {K: "b", V: `{"a": "z", "s": "y", "arr": []}`}}
	}
	if os.Getenv("VERIF_PROBE_STORE") == "csv" {
		pairs = []lib.Pair{{K: "a", V: "x,y"}, {K: "b", V: "1,2,3"}, {K: "c", V: "q"}}
	}
	if raw := os.Getenv("VERIF_PROBE_PAIRS"); raw != "" {
		// k=v;k=v
		pairs = nil
		for _, kv := range strings.Split(raw, ";") {
			i := strings.Index(kv, "=")
			pairs = append(pairs, lib.Pair{K: kv[:i], V: kv[i+1:]})
		}
	}
	sc := bufio.NewScanner(f)
	for sc.Scan() {
		q := strings.TrimRight(sc.Text(), "\n")
		if q == "" {
			continue
		}
		for _, cfg := range []lib.Cfg{{Mode: "row", Batch: 2, Cache: true}, {Mode: "batch", Batch: 2, Cache: true}} {
			res := lib.Run(q, lib.NewStore(pairs), len(pairs), cfg)
			fmt.Printf("%-70s [%s] names=%v -> %s\n", q, cfg.Mode, res.Names, res.Describe())
		}
	}
}
