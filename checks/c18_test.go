package checks

import (
	"fmt"
	"sort"
	"strings"
	"testing"

	"pgregory.net/rapid"

	"verif/lib"
)

// C18 — key-pinning filters read only the pinned keys or region.

type c18Case struct {
	Conj  []*lib.Node `json:"conj"` // conjuncts, combined left-deep with AndOp
	AndOp string      `json:"andop"`
	Pairs []lib.Pair  `json:"pairs"`
	Mode  string      `json:"mode"`
	Batch int         `json:"batch"`
	Query string      `json:"query"`
	Past  int         `json:"past,omitempty"` // polls issued after the end of the rows
}

func init() { registerReplay("c18", func(c *c18Case) string { m, _, _ := checkC18(c); return m }) }

// pin describes the region a conjunct pins the key to (closed bounds).
type c18Pin struct {
	Kind   string // set prefix range
	Set    []string
	Prefix string
	Lo, Hi *string // nil = unbounded
}

// c18NonLiteral: the conjunct constrains the key by something that is not a
// literal ('a' + 'b', lower('A')). The property is stated for literals; what
// the planner does with constant expressions is not part of it.
func c18NonLiteral(n *lib.Node) bool {
	if len(n.A) == 0 || !(n.K == "in" || n.K == "between" || n.K == "bin") {
		return false
	}
	hasKey := false
	for _, a := range n.A {
		if a.K == "key" {
			hasKey = true
		}
	}
	if !hasKey {
		return false
	}
	for _, a := range n.A {
		if a.K != "key" && a.K != "str" && !a.Has(func(x *lib.Node) bool { return x.K == "key" || x.K == "value" }) {
			return true
		}
	}
	return false
}

func c18PinOf(n *lib.Node) (c18Pin, bool) {
	s := func(x string) *string { return &x }
	switch n.K {
	case "in":
		if n.A[0].K != "key" {
			return c18Pin{}, false
		}
		p := c18Pin{Kind: "set"}
		for _, it := range n.A[1:] {
			if it.K != "str" {
				return c18Pin{}, false
			}
			p.Set = append(p.Set, it.S)
		}
		return p, true
	case "between":
		if n.A[0].K == "key" && n.A[1].K == "str" && n.A[2].K == "str" {
			return c18Pin{Kind: "range", Lo: s(n.A[1].S), Hi: s(n.A[2].S)}, true
		}
	case "bin":
		l, r := n.A[0], n.A[1]
		op := n.S
		var lit string
		switch {
		case l.K == "key" && r.K == "str":
			lit = r.S
		case l.K == "str" && r.K == "key":
			lit = l.S
			// mirror the operator so that it reads `key op literal`
			switch op {
			case "<":
				op = ">"
			case "<=":
				op = ">="
			case ">":
				op = "<"
			case ">=":
				op = "<="
			case "^=":
				return c18Pin{}, false // literal ^= key does not pin a region
			}
		default:
			return c18Pin{}, false
		}
		switch op {
		case "=":
			return c18Pin{Kind: "set", Set: []string{lit}}, true
		case "^=":
			return c18Pin{Kind: "prefix", Prefix: lit}, true
		case ">", ">=":
			return c18Pin{Kind: "range", Lo: s(lit)}, true
		case "<", "<=":
			return c18Pin{Kind: "range", Hi: s(lit)}, true
		}
	}
	return c18Pin{}, false
}

func (p c18Pin) inside(k string) bool {
	switch p.Kind {
	case "set":
		for _, x := range p.Set {
			if x == k {
				return true
			}
		}
		return false
	case "prefix":
		return strings.HasPrefix(k, p.Prefix)
	case "range":
		if p.Lo != nil && k < *p.Lo {
			return false
		}
		if p.Hi != nil && k > *p.Hi {
			return false
		}
		return true
	}
	return false
}

// beyondEnd: k lies after every key of the region.
func (p c18Pin) beyondEnd(k string) bool {
	switch p.Kind {
	case "prefix":
		return k > p.Prefix && !strings.HasPrefix(k, p.Prefix)
	case "range":
		return p.Hi != nil && k > *p.Hi
	}
	return false
}

func (p c18Pin) String() string {
	switch p.Kind {
	case "set":
		return fmt.Sprintf("set%q", p.Set)
	case "prefix":
		return fmt.Sprintf("prefix(%q)", p.Prefix)
	}
	lo, hi := "-inf", "+inf"
	if p.Lo != nil {
		lo = fmt.Sprintf("%q", *p.Lo)
	}
	if p.Hi != nil {
		hi = fmt.Sprintf("%q", *p.Hi)
	}
	return fmt.Sprintf("range[%s, %s]", lo, hi)
}

func isConstFalse(n *lib.Node) bool {
	if n.K == "bool" {
		return n.I == 0
	}
	if n.K == "bin" && n.S == "=" && n.A[0].K == "int" && n.A[1].K == "int" {
		return n.A[0].I != n.A[1].I
	}
	return false
}

// unsatOnItsFace: a constant-false conjunct, two disjoint key sets, two
// prefixes neither of which extends the other, or two disjoint closed ranges.
func c18Unsat(conj []*lib.Node, pins []c18Pin) bool {
	for _, n := range conj {
		if isConstFalse(n) {
			return true
		}
	}
	// The planner intersects regions pairwise along the tree and may widen an
	// intermediate result (prefix & range keeps one of the two), so for three
	// or more pinning conjuncts only the pair that is combined directly - the
	// first two - is "on its face"; with exactly two pinning conjuncts (and any
	// number of opaque ones) the pair is always combined directly.
	for i := range pins {
		for j := i + 1; j < len(pins); j++ {
			if len(pins) > 2 && !(i == 0 && j == 1) {
				continue
			}
			a, b := pins[i], pins[j]
			switch {
			case a.Kind == "set" && b.Kind == "set":
				common := false
				for _, x := range a.Set {
					if b.inside(x) {
						common = true
					}
				}
				if !common {
					return true
				}
			case a.Kind == "prefix" && b.Kind == "prefix":
				if !strings.HasPrefix(a.Prefix, b.Prefix) && !strings.HasPrefix(b.Prefix, a.Prefix) {
					return true
				}
			case a.Kind == "range" && b.Kind == "range":
				if a.Hi != nil && b.Lo != nil && *a.Hi < *b.Lo {
					return true
				}
				if b.Hi != nil && a.Lo != nil && *b.Hi < *a.Lo {
					return true
				}
			}
		}
	}
	return false
}

func checkC18(c *c18Case) (msg string, nontrivial bool, labels []string) {
	where := c.Conj[0]
	for _, n := range c.Conj[1:] {
		where = lib.Bin(c.AndOp, where, n)
	}
	st := &lib.Stmt{Kind: "select", Star: true, Where: where}
	q := st.Render()
	c.Query = q
	for _, n := range c.Conj {
		if c18NonLiteral(n) {
			return "", false, []string{"skipped-non-literal-operand"}
		}
	}
	var pins []c18Pin
	hasSet := false
	for _, n := range c.Conj {
		if p, ok := c18PinOf(n); ok {
			pins = append(pins, p)
			if p.Kind == "set" {
				hasSet = true
			}
		}
	}
	if len(pins) == 0 && !c18Unsat(c.Conj, nil) {
		return "", false, []string{"no-pinning-conjunct"}
	}
	in := lib.NewInstr(lib.NewStore(c.Pairs))
	cfg := lib.Cfg{Mode: c.Mode, Batch: c.Batch, Cache: true, Past: c.Past}
	res := lib.Run(q, in, len(c.Pairs), cfg)
	if res.BuildErr != nil {
		return "", false, []string{"rejected-by-engine"}
	}
	if res.Failed() {
		return fmt.Sprintf("query %q [%s]: %s", q, cfg, res.Describe()), false, nil
	}
	calls := in.Calls()
	var reads []string
	nGet, nNext, nCursorOps := 0, 0, 0
	for _, cl := range calls {
		switch cl.Op {
		case "Get":
			nGet++
			reads = append(reads, cl.Keys[0])
		case "Next":
			nNext++
			nCursorOps++
			if !cl.End {
				reads = append(reads, cl.Ret)
			}
		case "Cursor", "Seek":
			nCursorOps++
		}
	}
	showLog := func() string {
		parts := make([]string, len(calls))
		for i, cl := range calls {
			switch cl.Op {
			case "Next":
				if cl.End {
					parts[i] = "Next->end"
				} else {
					parts[i] = fmt.Sprintf("Next->%q", cl.Ret)
				}
			case "Cursor":
				parts[i] = "Cursor"
			default:
				parts[i] = fmt.Sprintf("%s%q", cl.Op, cl.Keys)
			}
		}
		return strings.Join(parts, " ")
	}
	if c18Unsat(c.Conj, pins) {
		labels = append(labels, "unsat-on-its-face")
		if nGet > 0 || nNext > 0 {
			return fmt.Sprintf("query %q [%s] is unsatisfiable on its face but reads from storage: %s", q, cfg, showLog()), true, labels
		}
		return "", true, labels
	}
	if hasSet {
		labels = append(labels, "point-read-shape")
		if nCursorOps > 0 {
			return fmt.Sprintf("query %q [%s] pins the key by equality/IN but scans instead of using point reads: %s", q, cfg, showLog()), true, labels
		}
	}
	// some pinning conjunct must cover all reads (plus one key beyond its end)
	okPin := -1
	for i, p := range pins {
		beyond := map[string]bool{}
		good := true
		for _, k := range reads {
			if p.inside(k) {
				continue
			}
			if p.beyondEnd(k) {
				beyond[k] = true
				continue
			}
			good = false
			break
		}
		if good && len(beyond) <= 1 {
			okPin = i
			break
		}
	}
	if okPin < 0 {
		ps := make([]string, len(pins))
		for i, p := range pins {
			ps[i] = p.String()
		}
		return fmt.Sprintf("query %q [%s]: storage reads are not confined to the region of any pinning conjunct (%s) plus one key beyond its end: %s", q, cfg, strings.Join(ps, "; "), showLog()), true, labels
	}
	// non-trivial: the store holds keys on both sides outside the region
	p := pins[okPin]
	below, above := false, false
	for _, kv := range c.Pairs {
		if !p.inside(kv.K) {
			if p.beyondEnd(kv.K) || (p.Kind == "set" && len(p.Set) > 0 && kv.K > maxStr(p.Set)) {
				above = true
			} else {
				below = true
			}
		}
	}
	labels = append(labels, "pin="+p.Kind)
	return "", below && above, labels
}

func maxStr(xs []string) string {
	ys := append([]string(nil), xs...)
	sort.Strings(ys)
	return ys[len(ys)-1]
}

var c18Universe = func() []lib.Pair { return c02Universe(2) }

func c18Run(t lib.Fataler, c *c18Case, enum bool) {
	lib.Journal("C18", "c18", c)
	msg, nt, labels := checkC18(c)
	labels = append(labels, "mode="+c.Mode)
	sample := func() any {
		return map[string]any{"query": c.Query, "mode": c.Mode, "batch": c.Batch, "pairs": len(c.Pairs)}
	}
	if enum {
		lib.Stats.EnumCase(nt, labels, sample)
	} else {
		lib.Stats.Case(nt, fmt.Sprint(c.Query, c.Mode, c.Batch, c.Pairs), labels, sample)
	}
	if msg != "" {
		fail(t, "C18", "c18", msg, c)
	}
}

var c18Cfgs = []struct {
	mode  string
	batch int
}{{"row", 32}, {"batch", 32}, {"batch", 3}}

// TestC18Shapes: every canonical pinning atom, every conjunction of two of
// them, and conjunctions with an opaque predicate on either side, over the
// literal pool exhaustively, against the key universe.
func TestC18Shapes(t *testing.T) {
	lib.Stats.Exhaustive = true
	lits := []string{"", "a", "ab", "b", "ba", "bb"}
	atoms := c02KeyAtoms(lits, true)
	var pinning []*lib.Node
	for _, a := range atoms {
		if _, ok := c18PinOf(a.N); ok {
			pinning = append(pinning, a.N)
		}
	}
	opaque := []*lib.Node{
		lib.Bin("=", lib.Value(), lib.Str("x")),
		lib.Bin("=", lib.Call("upper", lib.Key()), lib.Str("A")),
		lib.Bin("!=", lib.Key(), lib.Str("ab")),
		lib.Bin("=", lib.Int(2), lib.Int(3)),
		lib.Bin("=", lib.Int(1), lib.Int(1)),
	}
	u := c18Universe()
	idx := 0
	emit := func(conj []*lib.Node, op string) {
		for _, cf := range c18Cfgs {
			idx++
			if lib.Mine(idx) {
				// (round 11: one case in three polls on past the end of the rows)
				past := 0
				if idx%3 == 0 {
					past = 1 + idx%2
				}
				c18Run(t, &c18Case{Conj: conj, AndOp: op, Pairs: u, Mode: cf.mode, Batch: cf.batch, Past: past}, true)
			}
		}
	}
	for _, a := range pinning {
		emit([]*lib.Node{a}, "&")
		for _, o := range opaque {
			emit([]*lib.Node{a, o}, "&")
			emit([]*lib.Node{o, a}, "and")
		}
	}
	for i, a := range pinning {
		for j, b := range pinning {
			op := "&"
			if (i+j)%2 == 1 {
				op = "and"
			}
			emit([]*lib.Node{a, b}, op)
			if lib.Thorough() || (i*31+j)%5 == 0 {
				emit([]*lib.Node{a, b, opaque[(i+j)%3]}, op)
				emit([]*lib.Node{opaque[(i+j)%3], a, b}, op)
			}
		}
	}
	if lib.Thorough() {
		for i, a := range pinning {
			for j, b := range pinning {
				for k, cc := range pinning {
					if (i+j+k)%4 != 0 {
						continue
					}
					emit([]*lib.Node{a, b, cc}, "&")
				}
			}
		}
	}
}

// TestC18Random: the same oracle over random stores and literals drawn from
// them.
func TestC18Random(t *testing.T) {
	rapid.Check(t, func(rt *rapid.T) {
		kind := lib.GenKind(rt)
		pairs := lib.GenStore(rt, kind, lib.GenStoreSize(rt))
		ctx := &lib.GenCtx{Kind: kind, Pairs: pairs}
		n := rapid.IntRange(1, 3).Draw(rt, "nconj")
		conj := make([]*lib.Node, n)
		for i := range conj {
			if rapid.IntRange(0, 4).Draw(rt, "opaque") == 0 {
				conj[i] = rapid.SampledFrom([]*lib.Node{
					lib.Bin("!=", lib.Value(), lib.Str("zz")),
					lib.Bin("=", lib.Call("strlen", lib.Key()), lib.Int(2)),
					lib.Bin("=", lib.Int(2), lib.Int(3)),
				}).Draw(rt, "opaqueAtom")
			} else {
				conj[i] = ctx.KeyAtom(rt)
			}
		}
		cf := rapid.SampledFrom(c18Cfgs).Draw(rt, "cfg")
		bs := cf.batch
		if cf.mode == "batch" {
			bs = lib.GenBatchSize(rt)
		}
		c := &c18Case{Conj: conj, AndOp: rapid.SampledFrom([]string{"&", "and"}).Draw(rt, "andop"), Pairs: pairs, Mode: cf.mode, Batch: bs, Past: rapid.SampledFrom([]int{0, 0, 1, 2}).Draw(rt, "pollsPastTheEnd")}
		c18Run(rt, c, false)
	})
}
