package checks

import (
	"bytes"
	"fmt"
	"sort"
	"strings"
	"testing"

	"github.com/c4pt0r/kvql"
	"pgregory.net/rapid"

	"verif/lib"
)

// C02 — every access path covers the filter.

type c02Case struct {
	Where  *lib.Node `json:"where"`
	Delete bool      `json:"delete"`
	MaxLit int       `json:"maxlit"` // longest key literal (sizes the key universe)
	Query  string    `json:"query"`
}

func init() { registerReplay("c02", func(c *c02Case) string { m, _, _ := checkC02(c); return m }) }

// ---- key universe ----------------------------------------------------------

var c02UniverseCache = map[int][]lib.Pair{}

// universe: all non-empty keys of length <= maxLit+1 over {` a b c} (one
// symbol below and one above the literal alphabet {a,b}), each with the two
// values that drive the opaque atoms through both truth values.
func c02Universe(maxLit int) []lib.Pair {
	if u, ok := c02UniverseCache[maxLit]; ok {
		return u
	}
	var keys []string
	var rec func(prefix string, depth int)
	rec = func(prefix string, depth int) {
		if prefix != "" {
			keys = append(keys, prefix)
		}
		if depth == 0 {
			return
		}
		for _, c := range "`abc" {
			rec(prefix+string(c), depth-1)
		}
	}
	rec("", maxLit+1)
	sort.Strings(keys)
	c02UniverseCache[maxLit] = nil
	var u []lib.Pair
	for _, k := range keys {
		u = append(u, lib.Pair{K: k, V: "x"})
	}
	c02UniverseCache[maxLit] = u
	return u
}

// Each key is stored once; the second value of every key lives in a second
// store (a store maps a key to one value).
func c02Stores(maxLit int) [2][]lib.Pair {
	u := c02Universe(maxLit)
	v := make([]lib.Pair, 0, len(u))
	for i, p := range u {
		// the second store is sparse (two of every three keys): point reads of
		// listed keys can miss, scans cross gaps
		if i%3 == 1 {
			continue
		}
		// ... and its values are empty: a stored pair with an empty value is a
		// pair like any other, a point read must not take it for a missing key
		v = append(v, lib.Pair{K: p.K, V: ""})
	}
	return [2][]lib.Pair{u, v}
}

// ---- region of a built plan -------------------------------------------------

type c02Region struct {
	Kind   string // EMPTY MGET PREFIX RANGE FULL REMOVE
	Keys   []string
	Prefix string
	Start  []byte
	End    []byte
}

func (r c02Region) String() string {
	switch r.Kind {
	case "MGET", "REMOVE":
		return fmt.Sprintf("%s%q", r.Kind, r.Keys)
	case "PREFIX":
		return fmt.Sprintf("PREFIX(%q)", r.Prefix)
	case "RANGE":
		s, e := "-inf", "+inf"
		if r.Start != nil {
			s = fmt.Sprintf("%q", r.Start)
		}
		if r.End != nil {
			e = fmt.Sprintf("%q", r.End)
		}
		return fmt.Sprintf("RANGE[%s, %s]", s, e)
	}
	return r.Kind
}

func (r c02Region) contains(k string) bool {
	switch r.Kind {
	case "EMPTY":
		return false
	case "FULL":
		return true
	case "MGET", "REMOVE":
		for _, x := range r.Keys {
			if x == k {
				return true
			}
		}
		return false
	case "PREFIX":
		return strings.HasPrefix(k, r.Prefix)
	case "RANGE":
		if r.Start != nil && bytes.Compare([]byte(k), r.Start) < 0 {
			return false
		}
		if r.End != nil && bytes.Compare([]byte(k), r.End) > 0 {
			return false
		}
		return true
	}
	return false
}

func c02RegionOf(plan kvql.FinalPlan) (c02Region, error) {
	if rp, ok := plan.(*kvql.RemovePlan); ok {
		r := c02Region{Kind: "REMOVE"}
		for _, k := range rp.Keys {
			se, ok := k.(*kvql.StringExpr)
			if !ok {
				return r, fmt.Errorf("remove plan key is %T", k)
			}
			r.Keys = append(r.Keys, se.Data)
		}
		return r, nil
	}
	switch n := lib.ScanNode(plan).(type) {
	case *kvql.EmptyResultPlan:
		return c02Region{Kind: "EMPTY"}, nil
	case *kvql.FullScanPlan:
		return c02Region{Kind: "FULL"}, nil
	case *kvql.MultiGetPlan:
		return c02Region{Kind: "MGET", Keys: append([]string(nil), n.Keys...)}, nil
	case *kvql.PrefixScanPlan:
		return c02Region{Kind: "PREFIX", Prefix: n.Prefix}, nil
	case *kvql.RangeScanPlan:
		return c02Region{Kind: "RANGE", Start: n.Start, End: n.End}, nil
	default:
		return c02Region{}, fmt.Errorf("unknown scan node %T", n)
	}
}

// ---- the oracle --------------------------------------------------------------

func checkC02(c *c02Case) (msg string, nontrivial bool, labels []string) {
	st := &lib.Stmt{Kind: "select", Star: true, Where: c.Where}
	if c.Delete {
		st = &lib.Stmt{Kind: "delete", Where: c.Where}
	}
	q := st.Render()
	c.Query = q
	stores := c02Stores(c.MaxLit)

	// reference truth of P on every (key, value) of the universe
	type hit struct{ k, v string }
	var sat []hit
	satKeyAny := map[string]bool{} // key satisfies P for some value
	for _, val := range []string{"x", ""} {
		for _, p := range c02Universe(c.MaxLit) {
			ok, err := lib.EvalBool(c.Where, p.K, val, nil)
			if err != nil {
				return "", false, []string{"skipped-not-evaluable"}
			}
			if ok {
				sat = append(sat, hit{p.K, val})
				satKeyAny[p.K] = true
			}
		}
	}

	cfg := lib.Cfg{Mode: "row", Batch: 32, Cache: true}
	b := lib.Build(q, lib.NewStore(stores[0]), cfg)
	if b.Panic != "" {
		return fmt.Sprintf("query %q: planning panicked: %s", q, b.Panic), false, nil
	}
	if b.BuildErr != nil {
		return "", false, []string{"rejected-by-engine"}
	}
	reg, err := c02RegionOf(b.Plan)
	if err != nil {
		return fmt.Sprintf("query %q: %v", q, err), false, nil
	}
	labels = append(labels, "region="+reg.Kind)
	nontrivial = reg.Kind != "FULL" && len(sat) > 0

	// (1) region soundness: every satisfying key lies in the region
	for _, h := range sat {
		if !reg.contains(h.k) {
			return fmt.Sprintf("query %q: planned region %s does not contain key %q, which satisfies the filter with value %q", q, reg, h.k, h.v), nontrivial, labels
		}
	}
	// (1b) the direct-removal shortcut must be exact
	if reg.Kind == "REMOVE" {
		for _, k := range reg.Keys {
			all := true
			for vi := range stores {
				ok, err := lib.EvalBool(c.Where, k, stores[vi][0].V, nil)
				if err != nil || !ok {
					all = false
				}
			}
			if !all {
				return fmt.Sprintf("query %q: DELETE was turned into direct removal of %q, but key %q does not satisfy the filter for every value", q, reg.Keys, k), nontrivial, labels
			}
		}
		for k := range satKeyAny {
			if !reg.contains(k) {
				return fmt.Sprintf("query %q: DELETE was turned into direct removal of %q, but key %q also satisfies the filter", q, reg.Keys, k), nontrivial, labels
			}
		}
	}

	// (2) behaviour: the statement returns / deletes exactly what a full scan
	// filtered pair by pair would
	for vi := range stores {
		var want [][]any
		wantGone := map[string]bool{}
		stored := map[string]bool{}
		for _, p := range stores[vi] {
			stored[p.K] = true
		}
		for _, h := range sat {
			if h.v == stores[vi][0].V && stored[h.k] {
				want = append(want, []any{h.k, h.v})
				wantGone[h.k] = true
			}
		}
		for mi, mode := range []string{"row", "batch", "batch"} {
			cfg := lib.Cfg{Mode: mode, Batch: 32, Cache: true}
			if mode == "batch" {
				// batch sizes 1, 2, 5, 32: chosen by the statement text so that every size is used
				cfg.Batch = []int{1, 2, 5, 32}[(len(q)+mi+vi)%4]
			}
			store := lib.NewStore(stores[vi])
			res := lib.Run(q, store, len(stores[vi]), cfg)
			if res.Failed() {
				return fmt.Sprintf("query %q [%s, values %q]: %s", q, cfg, stores[vi][0].V, res.Describe()), nontrivial, labels
			}
			if !c.Delete {
				if !lib.EqualRows(res.Rows, want) {
					return fmt.Sprintf("query %q [%s] over the key universe with values %q (plan region %s):\n  full-scan filter gives %s\n  engine gives          %s", q, cfg, stores[vi][0].V, reg, lib.ShowRows(want), lib.ShowRows(res.Rows)), nontrivial, labels
				}
				continue
			}
			left := store.Pairs()
			var wantLeft []lib.Pair
			for _, p := range stores[vi] {
				if !wantGone[p.K] {
					wantLeft = append(wantLeft, p)
				}
			}
			if fmt.Sprint(left) != fmt.Sprint(wantLeft) {
				return fmt.Sprintf("query %q [%s] over the key universe with values %q (plan region %s): store afterwards differs from prior minus satisfying keys: removed-too-much/too-little; expected %d pairs left, got %d", q, cfg, stores[vi][0].V, reg, len(wantLeft), len(left)), nontrivial, labels
			}
		}
	}
	return "", nontrivial, labels
}

// ---- atoms -------------------------------------------------------------------

type c02Atom struct {
	N      *lib.Node
	MaxLit int
}

func c02KeyAtoms(lits []string, full bool) []c02Atom {
	var as []c02Atom
	add := func(n *lib.Node, ls ...string) {
		m := 0
		for _, l := range ls {
			if len(l) > m {
				m = len(l)
			}
		}
		as = append(as, c02Atom{N: n, MaxLit: m})
	}
	ops := []string{"=", "!=", ">", ">=", "<", "<=", "^="}
	for _, l := range lits {
		for _, op := range ops {
			add(lib.Bin(op, lib.Key(), lib.Str(l)), l)
			if full || op == ">" || op == "<=" || op == "^=" || op == "=" {
				add(lib.Bin(op, lib.Str(l), lib.Key()), l)
			}
		}
		add(lib.In(lib.Key(), lib.Str(l)), l)
	}
	for i, a := range lits {
		for j, b := range lits {
			if i < j {
				add(lib.In(lib.Key(), lib.Str(a), lib.Str(b)), a, b)
				if full {
					add(lib.In(lib.Key(), lib.Str(b), lib.Str(a), lib.Str(b)), a, b)
					// lists that mix literals with computed elements (the
					// planner cannot pin those to the literal ones)
					add(lib.In(lib.Key(), lib.Str(a), lib.Bin("+", lib.Str(b), lib.Str(""))), a, b)
					add(lib.In(lib.Key(), lib.Call("lower", lib.Str(strings.ToUpper(a))), lib.Str(b)), a, b)
					if len(a)+len(b) <= 3 {
						add(lib.In(lib.Key(), lib.Str(b), lib.Bin("+", lib.Str(a), lib.Str(b)), lib.Str(a)), a+b)
					}
				}
			}
			if a < b {
				add(lib.Between(lib.Key(), lib.Str(a), lib.Str(b)), a, b)
			}
		}
	}
	return as
}

func c02OpaqueAtoms() []c02Atom {
	return []c02Atom{
		{N: lib.Bin("=", lib.Value(), lib.Str("x"))},
		{N: lib.Bin("!=", lib.Value(), lib.Str("x"))}, // true on the empty values of the second store
		{N: lib.Bin("=", lib.Call("upper", lib.Key()), lib.Str("A")), MaxLit: 1},
		{N: lib.Bin("~=", lib.Key(), lib.Str("a.")), MaxLit: 2},
		{N: lib.Not(lib.Bin("=", lib.Key(), lib.Str("a"))), MaxLit: 1},
		{N: lib.Bin("=", lib.Int(1), lib.Int(1))},
		{N: lib.Bin("=", lib.Int(2), lib.Int(3))},
	}
}

func c02MaxLit(ns ...c02Atom) int {
	m := 1
	for _, a := range ns {
		if a.MaxLit > m {
			m = a.MaxLit
		}
	}
	return m
}

func c02Run(t lib.Fataler, c *c02Case, enum bool, extra ...string) {
	lib.Journal("C02", "c02", c)
	msg, nt, labels := checkC02(c)
	labels = append(labels, extra...)
	if c.Delete {
		labels = append(labels, "delete")
	}
	sample := func() any { return c.Query }
	if enum {
		lib.Stats.EnumCase(nt, labels, sample)
	} else {
		lib.Stats.Case(nt, c.Query, labels, sample)
	}
	if msg != "" {
		fail(t, "C02", "c02", msg, c)
	}
}

// TestC02Depth1: every atom, and every `atom op atom`, over the full literal
// pool; SELECT and DELETE.
func TestC02Depth1(t *testing.T) {
	lib.Stats.Exhaustive = true
	lits := []string{"", "a", "ab", "b", "ba", "bb"}
	if lib.Thorough() {
		lits = append(lits, "aba", "abb")
	}
	atoms := append(c02KeyAtoms(lits, true), c02OpaqueAtoms()...)
	idx := 0
	for _, a := range atoms {
		for _, del := range []bool{false, true} {
			idx++
			if lib.Mine(idx) {
				c02Run(t, &c02Case{Where: a.N, Delete: del, MaxLit: c02MaxLit(a)}, true, "depth=0")
			}
		}
	}
	for _, a := range atoms {
		for _, b := range atoms {
			for oi, op := range []string{"&", "|", "and", "or"} {
				// the word spellings take the same planner path; cover them on a quarter of the pairs
				idx++
				if oi >= 2 && idx%4 != 0 {
					continue
				}
				if !lib.Mine(idx) {
					continue
				}
				del := idx%3 == 0
				c02Run(t, &c02Case{Where: lib.Bin(op, a.N, b.N), Delete: del, MaxLit: c02MaxLit(a, b)}, true, "depth=1", "root="+op)
			}
		}
	}
}

// TestC02Depth2: every tree of depth 2 over a reduced atom set that still
// contains every region kind and every relative order of two literals.
func TestC02Depth2(t *testing.T) {
	lib.Stats.Exhaustive = true
	lits := []string{"a", "ab", "b"}
	atoms := c02KeyAtoms(lits, false)
	atoms = append(atoms,
		c02Atom{N: lib.Bin(">", lib.Key(), lib.Str(""))},
		c02Atom{N: lib.Bin("=", lib.Value(), lib.Str("x"))},
		c02Atom{N: lib.Bin("=", lib.Int(2), lib.Int(3))},
		c02Atom{N: lib.Bin("=", lib.Int(1), lib.Int(1))},
	)
	if !lib.Thorough() {
		// quick tier: a third of the atoms in the innermost position
		var keep []c02Atom
		for i, a := range atoms {
			if i%3 == 0 || a.N.K != "bin" {
				keep = append(keep, a)
			}
		}
		_ = keep
	}
	ops := []string{"&", "|"}
	idx := 0
	for _, a := range atoms {
		for _, b := range atoms {
			for _, op1 := range ops {
				inner := lib.Bin(op1, a.N, b.N)
				for _, cAtom := range atoms {
					for _, op2 := range ops {
						for _, left := range []bool{true, false} {
							idx++
							if !lib.Thorough() && idx%7 != 0 {
								continue // quick tier: every 7th tree (deterministic)
							}
							if !lib.Mine(idx) {
								continue
							}
							w := lib.Bin(op2, inner, cAtom.N)
							if !left {
								w = lib.Bin(op2, cAtom.N, inner)
							}
							c02Run(t, &c02Case{Where: w, Delete: idx%5 == 0, MaxLit: c02MaxLit(a, b, cAtom)}, true, "depth=2")
						}
					}
				}
			}
		}
	}
	if !lib.Thorough() {
		lib.Stats.Exhaustive = false
		lib.Stats.Note("quick tier covers every 7th depth-2 tree; the thorough tier covers all of them")
	}
}

// TestC02Sampled: deeper trees (depth 3..5) over the full atom set.
func TestC02Sampled(t *testing.T) {
	lits := []string{"", "a", "ab", "b", "ba", "bb", "aba"}
	atoms := append(c02KeyAtoms(lits, true), c02OpaqueAtoms()...)
	rapid.Check(t, func(rt *rapid.T) {
		var gen func(depth int) (*lib.Node, int)
		gen = func(depth int) (*lib.Node, int) {
			if depth == 0 || rapid.IntRange(0, 4).Draw(rt, "leaf") == 0 {
				a := rapid.SampledFrom(atoms).Draw(rt, "atom")
				return a.N, c02MaxLit(a)
			}
			if rapid.IntRange(0, 9).Draw(rt, "not") == 0 {
				n, m := gen(depth - 1)
				return lib.Not(n), m
			}
			op := rapid.SampledFrom([]string{"&", "|", "and", "or"}).Draw(rt, "op")
			l, ml := gen(depth - 1)
			r, mr := gen(depth - 1)
			if mr > ml {
				ml = mr
			}
			return lib.Bin(op, l, r), ml
		}
		w, m := gen(rapid.IntRange(2, 5).Draw(rt, "depth"))
		c := &c02Case{Where: w, Delete: rapid.IntRange(0, 3).Draw(rt, "delete") == 0, MaxLit: m}
		c02Run(rt, c, false, "sampled")
	})
}

// TestC02Universe verifies the claim the exhaustive legs rest on: every
// relationship an arbitrary key can have to the literals (order, key has
// literal as prefix, literal has key as prefix) is realised by a key of the
// universe.
func TestC02Universe(t *testing.T) {
	lits := []string{"", "a", "ab", "b", "ba", "bb", "aba", "abb"}
	sig := func(k string) string {
		var sb strings.Builder
		for _, l := range lits {
			fmt.Fprintf(&sb, "%d%v%v,", strings.Compare(k, l), strings.HasPrefix(k, l), strings.HasPrefix(l, k))
		}
		return sb.String()
	}
	have := map[string]bool{}
	for _, p := range c02Universe(3) {
		have[sig(p.K)] = true
	}
	rapid.Check(t, func(rt *rapid.T) {
		n := rapid.IntRange(1, 8).Draw(rt, "len")
		b := make([]byte, n)
		for i := range b {
			if rapid.Bool().Draw(rt, "near") {
				b[i] = rapid.SampledFrom([]byte{'`', 'a', 'b', 'c', 0, 0xff, 'A', 'z'}).Draw(rt, "nb")
			} else {
				b[i] = rapid.Byte().Draw(rt, "b")
			}
		}
		k := string(b)
		lib.Stats.Case(len(k) > 4, "universe|"+k, []string{"universe-probe"}, nil)
		if !have[sig(k)] {
			rt.Fatalf("key %q has a relationship to the literal pool that no key of the universe realises", k)
		}
	})
}
