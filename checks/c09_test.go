package checks

import (
	"encoding/json"
	"fmt"
	"sort"
	"strings"
	"testing"

	"pgregory.net/rapid"

	"verif/lib"
)

// C09 — GROUP BY partitions by value tuples and aggregates equal their
// definitions.

type c09Case struct {
	Stmt  *lib.Stmt  `json:"stmt"`
	Pairs []lib.Pair `json:"pairs"`
	Batch int        `json:"batch"`
	Query string     `json:"query"`
}

func init() { registerReplay("c09", func(c *c09Case) string { m, _, _ := checkC09(c); return m }) }

func checkC09(c *c09Case) (msg string, nontrivial bool, labels []string) {
	q := c.Stmt.Render()
	c.Query = q
	ref, err := lib.RefSelect(c.Stmt, c.Pairs)
	if err != nil {
		return "", false, []string{"skipped-not-evaluable"}
	}
	want := make([][]any, len(ref))
	multi := false
	for i, r := range ref {
		want[i] = r.Cols
		if len(r.Pairs) >= 2 {
			multi = true
		}
	}
	nontrivial = len(ref) >= 2 && multi
	collide := false
	groupCol := map[int]bool{}
	for i, f := range c.Stmt.Fields {
		if !f.E.HasAggr() {
			groupCol[i] = true
		}
	}
	// colliding tuples: distinct group tuples whose plain concatenation is equal
	if len(c.Stmt.Group) >= 2 {
		concat := map[string]string{}
		for _, r := range ref {
			var parts []any
			for i := range c.Stmt.Fields {
				if groupCol[i] {
					parts = append(parts, r.Cols[i])
				}
			}
			cat := ""
			for _, p := range parts {
				cat += fmt.Sprint(p)
			}
			key := lib.ShowRow(parts)
			if prev, ok := concat[cat]; ok && prev != key {
				labels = append(labels, "colliding-tuples")
				collide = true
			}
			concat[cat] = key
		}
	}
	if collide && len(ref) >= 2 {
		nontrivial = true
	}
	for _, mode := range []string{"row", "batch"} {
		cfg := lib.Cfg{Mode: mode, Batch: c.Batch, Cache: true}
		res := lib.Run(q, lib.NewStore(c.Pairs), len(c.Pairs), cfg)
		if res.BuildErr != nil {
			return "", false, append(labels, "rejected-by-engine")
		}
		if res.Failed() {
			return fmt.Sprintf("query %q over %v [%s]: reference %s, engine: %s", q, c.Pairs, cfg, showRefRows(want), res.Describe()), nontrivial, labels
		}
		ok := len(res.Rows) == len(want)
		if ok {
			for i := range want {
				if len(res.Rows[i]) != len(want[i]) {
					ok = false
					break
				}
				for j := range want[i] {
					if !lib.EqualRefVal(want[i][j], res.Rows[i][j], groupCol[j]) {
						ok = false
					}
				}
			}
		}
		if !ok {
			return fmt.Sprintf("query %q over %v [%s]:\n  reference (groups in order of their first pair) %s\n  engine %s", q, c.Pairs, cfg, showRefRows(want), lib.ShowRows(res.Rows)), nontrivial, labels
		}
	}
	return "", nontrivial, labels
}

var c09Keys = []string{"a", "ab", "abc", "b", "bc", "c", "1", "11", "A", "aB", "ba", "abcd", "bcd", "d"}
var c09Vals = []string{"c", "bc", "", "1", "11", "abc", "C", "b", "111", "a"}

func genC09Store(rt *rapid.T, kind lib.StoreKind) []lib.Pair {
	if rapid.IntRange(0, 2).Draw(rt, "plainStore") == 0 {
		return lib.GenStore(rt, kind, lib.GenStoreSize(rt))
	}
	n := rapid.SampledFrom([]int{1, 2, 3, 5, 8, 12, 14}).Draw(rt, "n")
	m := map[string]string{}
	for i := 0; i < n; i++ {
		k := rapid.SampledFrom(c09Keys).Draw(rt, "k")
		var v string
		switch kind {
		case lib.KInt:
			v = rapid.SampledFrom([]string{"1", "11", "2", "0", "1", "-1", "010", "025", "008"}).Draw(rt, "vi")
		case lib.KFloat:
			// two values that agree in six decimals are different values
			v = rapid.SampledFrom([]string{"1.5", "0.5", "2", "1.5", "0.25", "0.1234561", "0.1234562", "2.0000001"}).Draw(rt, "vf")
		default:
			v = rapid.SampledFrom(c09Vals).Draw(rt, "v")
		}
		m[k] = v
	}
	var ps []lib.Pair
	for k, v := range m {
		ps = append(ps, lib.Pair{K: k, V: v})
	}
	sort.Slice(ps, func(i, j int) bool { return ps[i].K < ps[j].K })
	return ps
}

func TestC09(t *testing.T) {
	rapid.Check(t, func(rt *rapid.T) {
		kind := rapid.SampledFrom([]lib.StoreKind{lib.KInt, lib.KFloat, lib.KWord, lib.KWord}).Draw(rt, "kind")
		pairs := genC09Store(rt, kind)
		st := lib.GenSelect(rt, kind, pairs, lib.SelOpts{Aggregate: 2, MixedNumeric: true})
		c := &c09Case{Stmt: st, Pairs: pairs, Batch: rapid.SampledFrom([]int{1, 3, 32}).Draw(rt, "batch")}
		lib.Journal("C09", "c09", c)
		msg, nt, labels := checkC09(c)
		labels = append(labels, fmt.Sprintf("ngroup=%d", len(st.Group)))
		for _, f := range st.Fields {
			f.E.Walk(func(n *lib.Node) {
				if n.K == "call" && lib.AggrNames[n.S] {
					labels = append(labels, "aggr="+n.S)
				}
			})
		}
		lib.Stats.Case(nt, c.Query+"|"+fmt.Sprint(pairs, c.Batch), labels, func() any {
			return map[string]any{"query": c.Query, "pairs": pairs, "batch": c.Batch}
		})
		if msg != "" {
			fail(rt, "C09", "c09", msg, c)
		}
	})
}

// TestC09Collide: stores and GROUP BY tuples built so that distinct tuples
// have equal concatenations (('a','bc') vs ('ab','c')).
func TestC09Collide(t *testing.T) {
	rapid.Check(t, func(rt *rapid.T) {
		frag := func(name string, allowEmpty bool) string {
			// includes bytes an encoder of the group key might use as separator,
			// terminator, length prefix or escape
			pool := []string{"a", "b", "ab", "1", "c", "A", "\x00", "\x00b", "a\x00", ":", "1:", "2:a", "|", ",", "\\", "\xff", "\x01", " ", "0", "s", "as", "sb", "n", "s1:", "z", "\x00s", "\x00s\x00s"}
			if allowEmpty {
				pool = append(pool, "")
			}
			return rapid.SampledFrom(pool).Draw(rt, name)
		}
		m := map[string]string{}
		nsets := rapid.IntRange(1, 3).Draw(rt, "nsets")
		for i := 0; i < nsets; i++ {
			x, y, z := frag("x", false), frag("y", false), frag("z", true)
			m[x] = y + z
			m[x+y] = z
		}
		for i := rapid.IntRange(0, 4).Draw(rt, "extra"); i > 0; i-- {
			m[rapid.SampledFrom(c09Keys).Draw(rt, "ek")] = rapid.SampledFrom(c09Vals).Draw(rt, "ev")
		}
		var pairs []lib.Pair
		for k, v := range m {
			pairs = append(pairs, lib.Pair{K: k, V: v})
		}
		sort.Slice(pairs, func(i, j int) bool { return pairs[i].K < pairs[j].K })
		st := &lib.Stmt{Kind: "select"}
		shapes := [][]*lib.Node{
			{lib.Key(), lib.Value()},
			{lib.Call("upper", lib.Key()), lib.Value()},
			{lib.Key(), lib.Call("lower", lib.Value())},
			{lib.Call("str", lib.Call("strlen", lib.Key())), lib.Value()},
			{lib.Key(), lib.Value(), lib.Call("strlen", lib.Key())},
			{lib.Call("lower", lib.Key()), lib.Call("upper", lib.Value()), lib.Key()},
		}
		shape := rapid.SampledFrom(shapes).Draw(rt, "shape")
		for i, e := range shape {
			if (e.K == "key" || e.K == "value") && rapid.Bool().Draw(rt, "bare") {
				st.Fields = append(st.Fields, lib.SelField{E: e})
				st.Group = append(st.Group, e.K)
				continue
			}
			name := fmt.Sprintf("g%d", i+1)
			st.Fields = append(st.Fields, lib.SelField{E: e, Alias: name})
			st.Group = append(st.Group, name)
		}
		for i := rapid.IntRange(1, 2).Draw(rt, "nagg"); i > 0; i-- {
			st.Fields = append(st.Fields, lib.SelField{E: lib.GenAggrExpr(rt, lib.KWord, pairs)})
		}
		st.Where = rapid.SampledFrom([]*lib.Node{
			lib.Bin("=", lib.Int(1), lib.Int(1)),
			lib.Bin("!=", lib.Key(), lib.Str("zz")),
			lib.Bin(">=", lib.Call("strlen", lib.Key()), lib.Int(1)),
			lib.Bin("!=", lib.Value(), lib.Str("c")),
		}).Draw(rt, "where")
		c := &c09Case{Stmt: st, Pairs: pairs, Batch: rapid.SampledFrom([]int{1, 3, 32}).Draw(rt, "batch")}
		lib.Journal("C09", "c09", c)
		msg, nt, labels := checkC09(c)
		labels = append(labels, "collide-leg")
		lib.Stats.Case(nt, c.Query+"|"+fmt.Sprint(pairs, c.Batch), labels, func() any {
			return map[string]any{"query": c.Query, "pairs": pairs, "batch": c.Batch}
		})
		if msg != "" {
			fail(rt, "C09", "c09", msg, c)
		}
	})
}

// ---- group by over a dynamically typed (JSON) member --------------------------------

type c09DynCase struct {
	Pairs []lib.Pair `json:"pairs"`
	Batch int        `json:"batch"`
	Query string     `json:"query"`
}

func init() {
	registerReplay("c09dyn", func(c *c09DynCase) string { m, _ := checkC09Dyn(c); return m })
}

// checkC09Dyn: `group by json(value)['n']` where n is a number, a text or a
// Boolean. Two pairs share a group only if their values are equal: equal
// numbers (1 and 1.0), equal texts, equal Booleans - never the number 1 and
// the text "1", never true and "true". Membership is read from
// group_concat(key, ',').
func checkC09Dyn(c *c09DynCase) (msg string, nontrivial bool) {
	c.Query = "select json(value)['n'] as n, count(1), group_concat(key, ',') where key != '' group by n"
	type gk struct {
		kind string
		num  float64
		txt  string
	}
	var order []gk
	members := map[gk][]string{}
	for _, p := range lib.NewStore(c.Pairs).Pairs() {
		var doc map[string]any
		if err := json.Unmarshal([]byte(p.V), &doc); err != nil {
			return "", false
		}
		var k gk
		switch x := doc["n"].(type) {
		case float64:
			k = gk{kind: "number", num: x}
		case string:
			k = gk{kind: "text", txt: x}
		case bool:
			k = gk{kind: "bool", txt: fmt.Sprint(x)}
		case nil:
			k = gk{kind: "null"} // null or missing: not the empty text
		default:
			return "", false
		}
		if _, ok := members[k]; !ok {
			order = append(order, k)
		}
		members[k] = append(members[k], p.K)
	}
	for _, mode := range []string{"row", "batch"} {
		cfg := lib.Cfg{Mode: mode, Batch: c.Batch, Cache: true}
		res := lib.Run(c.Query, lib.NewStore(c.Pairs), len(c.Pairs), cfg)
		if res.BuildErr != nil || res.Failed() {
			return fmt.Sprintf("query %q over %v [%s]: %s", c.Query, c.Pairs, cfg, res.Describe()), true
		}
		var got []string
		for _, r := range res.Rows {
			if len(r) != 3 {
				return fmt.Sprintf("query %q [%s]: row %s has %d columns", c.Query, cfg, lib.ShowRow(r), len(r)), true
			}
			got = append(got, fmt.Sprint(r[2]))
		}
		var want []string
		for _, k := range order {
			want = append(want, strings.Join(members[k], ","))
		}
		if fmt.Sprint(got) != fmt.Sprint(want) {
			return fmt.Sprintf("query %q over %v [%s]: groups (keys of each, in order of first pair) %q, equal values give %q; rows %s", c.Query, c.Pairs, cfg, got, want, lib.ShowRows(res.Rows)), true
		}
	}
	return "", len(order) >= 2 && len(order) < len(c.Pairs)
}

func TestC09DynamicGroups(t *testing.T) {
	rapid.Check(t, func(rt *rapid.T) {
		vals := []string{`1`, `1.0`, `"1"`, `2`, `"2"`, `2.5`, `"2.5"`, `true`, `"true"`, `false`, `"b"`, `""`, `0`, `"0"`, `0.1234561`, `0.1234562`, `null`,
			// whole numbers beyond the integers a float (and an int64) can tell apart
			`1e19`, `2e19`, `10000000000000000000`, `-4e19`, `4e18`, `9007199254740992`, `9007199254740994`}
		n := rapid.IntRange(2, 9).Draw(rt, "n")
		pairs := make([]lib.Pair, n)
		for i := range pairs {
			pairs[i] = lib.Pair{K: fmt.Sprintf("k%d", i), V: `{"n": ` + rapid.SampledFrom(vals).Draw(rt, "v") + `}`}
		}
		c := &c09DynCase{Pairs: pairs, Batch: rapid.SampledFrom([]int{1, 2, 3, 32}).Draw(rt, "batch")}
		lib.Journal("C09", "c09dyn", c)
		msg, nt := checkC09Dyn(c)
		lib.Stats.Case(nt, fmt.Sprint(pairs, c.Batch), []string{"dynamic-group-column"}, func() any { return map[string]any{"pairs": pairs, "batch": c.Batch} })
		if msg != "" {
			fail(rt, "C09", "c09dyn", msg, c)
		}
	})
}
