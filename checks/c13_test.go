package checks

import (
	"errors"
	"fmt"
	"testing"

	"github.com/c4pt0r/kvql"
	"pgregory.net/rapid"

	"verif/lib"
)

// C13 — SELECT is read-only, rejected statements touch nothing, storage
// errors surface.

type c13Case struct {
	Stmt    *lib.Stmt  `json:"stmt"`
	Pairs   []lib.Pair `json:"pairs"`
	Batch   int        `json:"batch"`
	Mode    string     `json:"mode"`
	FailAt  int        `json:"failat"`            // -1: fault-free run (read-only / rejected legs)
	Reject  bool       `json:"reject"`            // the statement must be rejected (C14 mutant)
	ErrKind int        `json:"errkind,omitempty"` // guise of the injected fault (lib.Instr.ErrKind)
	Query   string     `json:"query"`
}

func init() { registerReplay("c13", func(c *c13Case) string { m, _, _, _ := checkC13(c); return m }) }

func showCalls(calls []lib.StoreCall) string {
	s := ""
	for i, cl := range calls {
		if i > 0 {
			s += " "
		}
		switch {
		case cl.Op == "Next" && cl.End:
			s += "Next->end"
		case cl.Op == "Next" && cl.Err:
			s += "Next->FAULT"
		case cl.Op == "Next":
			s += fmt.Sprintf("Next->%q", cl.Ret)
		case cl.Err:
			s += fmt.Sprintf("%s%q->FAULT", cl.Op, cl.Keys)
		default:
			s += fmt.Sprintf("%s%q", cl.Op, cl.Keys)
		}
	}
	return s
}

// checkC13 runs the statement once with the configured fault; returns the
// call log length of the run (for the enumeration of fault positions).
func checkC13(c *c13Case) (msg string, nontrivial bool, labels []string, ncalls int) {
	q := c.Stmt.Render()
	c.Query = q
	base := lib.NewStore(c.Pairs)
	base.Shared = true // the slices it hands out stay its own: reading must not write into them
	in := lib.NewInstr(base)
	in.FailAt = c.FailAt
	in.ErrKind = c.ErrKind
	cfg := lib.Cfg{Mode: c.Mode, Batch: c.Batch, Cache: true}
	res := lib.Run(q, in, len(c.Pairs), cfg)
	calls := in.Calls()
	ncalls = len(calls)
	if c.Stmt.Kind == "select" {
		if m := base.MemoryIntact(); m != "" {
			return fmt.Sprintf("SELECT %q [%s] wrote into memory of the storage: %s", q, cfg, m), true, labels, ncalls
		}
	}
	if res.Panic != "" || res.StepCap {
		return fmt.Sprintf("statement %q over %v [%s, fault at call %d]: %s", q, c.Pairs, cfg, c.FailAt, res.Describe()), false, labels, ncalls
	}
	if c.Reject {
		if res.BuildErr == nil {
			return "", false, []string{"mutant-accepted-is-C14"}, ncalls
		}
		for _, cl := range calls {
			if lib.IsMutation(cl.Op) {
				return fmt.Sprintf("rejected statement %q (%v) issued a state-changing storage call: %s", q, res.BuildErr, showCalls(calls)), true, labels, ncalls
			}
		}
		if len(calls) > 0 {
			return fmt.Sprintf("rejected statement %q (%v) touched storage: %s", q, res.BuildErr, showCalls(calls)), true, labels, ncalls
		}
		return "", true, append(labels, "rejected-touches-nothing"), ncalls
	}
	if c.Stmt.Kind == "select" {
		for _, cl := range calls {
			if lib.IsMutation(cl.Op) {
				return fmt.Sprintf("SELECT %q issued a mutating storage call: %s", q, showCalls(calls)), true, labels, ncalls
			}
		}
	}
	if c.FailAt < 0 {
		if res.BuildErr != nil {
			return "", false, []string{"rejected-by-engine"}, ncalls
		}
		return "", ncalls >= 3, append(labels, "fault-free"), ncalls
	}
	if !in.Failed {
		// the run made fewer calls than the fault-free one: the statement
		// failed before reaching call i for another reason, or is not deterministic
		return "", false, []string{"fault-not-reached"}, ncalls
	}
	fop := calls[c.FailAt].Op
	labels = append(labels, "fault-op="+fop)
	if res.Plan != nil {
		labels = append(labels, fmt.Sprintf("plan=%T", res.Plan))
	}
	err := res.BuildErr
	stage := "BuildPlan"
	if err == nil {
		err = res.ExecErr
		stage = map[string]string{"row": "Next", "batch": "Batch"}[c.Mode]
	}
	if err == nil {
		return fmt.Sprintf("statement %q over %v [%s]: storage call %d (%s) failed, but the statement completed normally with %s; calls: %s", q, c.Pairs, cfg, c.FailAt, fop, lib.ShowRows(res.Rows), showCalls(calls)), true, labels, ncalls
	}
	if !errors.Is(err, lib.ErrInjected) {
		return fmt.Sprintf("statement %q [%s]: storage call %d (%s) failed with the injected error, but %s returned a different error: %v", q, cfg, c.FailAt, fop, stage, err), true, labels, ncalls
	}
	if len(calls) != c.FailAt+1 {
		return fmt.Sprintf("statement %q [%s]: storage call %d (%s) failed, yet %d more storage calls followed: %s", q, cfg, c.FailAt, fop, len(calls)-c.FailAt-1, showCalls(calls)), true, labels, ncalls
	}
	// round 10: the statement has stopped. A caller that polls the plan once
	// more (in either form) must not get the write it was told has failed:
	// no state-changing storage call may follow the failed one. (What a
	// SELECT reads when polled on past an error is not judged.)
	if stage != "BuildPlan" && res.Plan != nil && c.Stmt.Kind != "select" {
		if m := pollPastError(res.Plan, cfg); m != "" {
			return fmt.Sprintf("statement %q [%s]: polling the plan again after storage call %d (%s) failed: %s", q, cfg, c.FailAt, fop, m), true, labels, ncalls
		}
		for _, cl := range in.Calls()[c.FailAt+1:] {
			if lib.IsMutation(cl.Op) {
				return fmt.Sprintf("statement %q over %v [%s]: storage call %d (%s) failed and the statement reported it, but polling the plan again issued a state-changing storage call: %s", q, c.Pairs, cfg, c.FailAt, fop, showCalls(in.Calls())), true, labels, ncalls
			}
		}
		labels = append(labels, "polled-past-error")
	}
	return "", true, labels, ncalls
}

// pollPastError polls a plan that has just reported an error: Batch, Next,
// Batch (a panic is reported, results and errors are not judged).
func pollPastError(plan kvql.FinalPlan, cfg lib.Cfg) (msg string) {
	defer func() {
		if p := recover(); p != nil {
			msg = fmt.Sprintf("panic: %v", p)
		}
	}()
	lib.SetGlobals(cfg)
	ctx := kvql.NewExecuteCtx()
	order := []bool{true, false, true}
	if cfg.Mode == "row" {
		order = []bool{false, true, false}
	}
	for _, batch := range order {
		if batch {
			plan.Batch(ctx)
		} else {
			plan.Next(ctx)
		}
	}
	return ""
}

func genC13Stmt(rt *rapid.T) (*lib.Stmt, []lib.Pair) {
	kind := rapid.SampledFrom([]lib.StoreKind{lib.KInt, lib.KWord, lib.KCSV}).Draw(rt, "kind")
	pairs := lib.GenStore(rt, kind, rapid.SampledFrom([]int{1, 3, 6, 10}).Draw(rt, "n"))
	ctx := &lib.GenCtx{Kind: kind, Pairs: pairs}
	switch rapid.IntRange(0, 11).Draw(rt, "shape") {
	case 0:
		return lib.GenPut(rt, kind, pairs, false), pairs
	case 1:
		return lib.GenRemove(rt, kind, pairs, false), pairs
	case 2:
		return lib.GenDelete(rt, kind, pairs, false), pairs
	case 3: // delete shortcut
		return &lib.Stmt{Kind: "delete", Where: lib.In(lib.Key(), lib.Str(ctxKey(rt, pairs)), lib.Str(ctxKey(rt, pairs)))}, pairs
	case 4: // point reads
		return &lib.Stmt{Kind: "select", Star: true, Where: lib.In(lib.Key(), lib.Str(ctxKey(rt, pairs)), lib.Str(ctxKey(rt, pairs)), lib.Str("zz"))}, pairs
	case 5: // prefix / range
		return &lib.Stmt{Kind: "select", Star: true, Where: ctx.KeyAtom(rt)}, pairs
	case 6: // delete over a range with limit
		return &lib.Stmt{Kind: "delete", Where: ctx.KeyAtom(rt), Lim: lib.GenLimit(rt, len(pairs))}, pairs
	default:
		return lib.GenSelect(rt, kind, pairs, lib.SelOpts{Aliases: true, Aggregate: 1, Order: true, Limit: true}), pairs
	}
}

func ctxKey(rt *rapid.T, pairs []lib.Pair) string {
	if len(pairs) > 0 {
		k := rapid.SampledFrom(pairs).Draw(rt, "existingKey").K
		if _, ok := lib.Quote(k); ok {
			return k
		}
	}
	return "a"
}

// TestC13Faults: for every generated statement, a fault-free run records the
// N storage calls; then EVERY position i in [0, N) is re-run with call i
// failing, in row and in batch mode.
func TestC13Faults(t *testing.T) {
	rapid.Check(t, func(rt *rapid.T) {
		st, pairs := genC13Stmt(rt)
		bs := rapid.SampledFrom([]int{1, 2, 3, 32}).Draw(rt, "batch")
		// round 11: the fault may look like the end of a stream (it wraps io.EOF)
		ek := rapid.SampledFrom([]int{0, 0, 1, 2}).Draw(rt, "errKind")
		for _, mode := range []string{"row", "batch"} {
			base := &c13Case{Stmt: st, Pairs: pairs, Batch: bs, Mode: mode, FailAt: -1}
			lib.Journal("C13", "c13", base)
			msg, nt, labels, n := checkC13(base)
			labels = append(labels, "stmt="+st.Kind, "mode="+mode)
			lib.Stats.Case(nt, fmt.Sprint(base.Query, pairs, bs, mode, -1), labels, func() any {
				return map[string]any{"query": base.Query, "pairs": len(pairs), "mode": mode, "batch": bs, "storage_calls": n}
			})
			if msg != "" {
				fail(rt, "C13", "c13", msg, base)
			}
			for i := 0; i < n; i++ {
				c := &c13Case{Stmt: st, Pairs: pairs, Batch: bs, Mode: mode, FailAt: i, ErrKind: ek}
				lib.Journal("C13", "c13", c)
				msg, _, labels, _ := checkC13(c)
				labels = append(labels, "stmt="+st.Kind, "mode="+mode, fmt.Sprintf("errkind=%d", ek))
				lib.Stats.Case(n >= 3 && i < n-1, fmt.Sprint(c.Query, pairs, bs, mode, i, ek), labels, func() any {
					return map[string]any{"query": c.Query, "pairs": len(pairs), "mode": mode, "batch": bs, "fault_at_call": i, "of": n}
				})
				if msg != "" {
					fail(rt, "C13", "c13", msg, c)
				}
			}
		}
	})
}

// TestC13Rejected: statements with a static fault must not touch storage.
func TestC13Rejected(t *testing.T) {
	rapid.Check(t, func(rt *rapid.T) {
		base, pairs := genC14Base(rt, false)
		mut, fault := mutateStmt(rt, base)
		if mut == nil {
			return
		}
		c := &c13Case{Stmt: mut, Pairs: pairs, Batch: 32, Mode: rapid.SampledFrom([]string{"row", "batch"}).Draw(rt, "mode"), FailAt: -1, Reject: true}
		lib.Journal("C13", "c13", c)
		msg, nt, labels, _ := checkC13(c)
		labels = append(labels, "rejected-leg", "stmt="+mut.Kind)
		lib.Stats.Case(nt, "rej|"+c.Query, labels, func() any { return map[string]any{"rejected": c.Query, "fault": fault} })
		if msg != "" {
			fail(rt, "C13", "c13", msg, c)
		}
	})
}
