package checks

import (
	"errors"
	"fmt"
	"math"
	"testing"

	"pgregory.net/rapid"

	"verif/lib"
)

// C12 — PUT and REMOVE apply exactly the stated writes, once, all-or-nothing.

type c12Case struct {
	Stmt  *lib.Stmt  `json:"stmt"`
	Pairs []lib.Pair `json:"pairs"` // prior state
	Polls string     `json:"polls"`
	Batch int        `json:"batch"` // PlanBatchSize (0 = 32): the writes must not depend on it
	Query string     `json:"query"`
}

func init() { registerReplay("c12", func(c *c12Case) string { m, _, _ := checkC12(c); return m }) }

// failing expressions: evaluate to an error, with a type PUT/REMOVE accept.
func c12FailingExprs() []*lib.Node {
	return []*lib.Node{
		lib.Bin("/", lib.Int(5), lib.Bin("-", lib.Int(2), lib.Int(2))),
		lib.Bin("/", lib.Call("strlen", lib.Str("ab")), lib.Bin("-", lib.Int(1), lib.Int(1))),
		lib.Call("cosine_distance", lib.Call("list", lib.Int(1)), lib.Call("list", lib.Int(1), lib.Int(2))),
		lib.Call("l2_distance", lib.Call("list", lib.Int(1)), lib.Call("list", lib.Int(1), lib.Int(2))),
	}
}

// c12JSONMembers: members of a constant JSON object, statically text; the
// null, Boolean, object and array members cannot be written, "s" can.
func c12JSONMembers() []*lib.Node {
	doc := lib.Str(`{"a": null, "b": true, "o": {"x": "y"}, "l": ["p", "q"], "s": "txt", "e": "e2"}`)
	var out []*lib.Node
	for _, m := range []string{"a", "b", "o", "l", "s", "e", "s"} {
		out = append(out, lib.Field(lib.Call("json", doc.Clone()), m))
	}
	return out
}

func isFailingExpr(n *lib.Node) bool {
	_, err := lib.Eval(n, &lib.Env{K: "k", V: ""})
	return err != nil
}

func checkC12(c *c12Case) (msg string, nontrivial bool, labels []string) {
	q := c.Stmt.Render()
	c.Query = q
	// model: evaluate every operand left to right, then apply in order
	type kv struct{ k, v string }
	var writes []kv
	var keys []string
	mustFail := false
	unknown := false
	evalOp := func(n *lib.Node, k string) (string, bool) {
		if n.K == "field" {
			// a JSON member is typed as text, what it holds is only known
			// when it is evaluated: only text and numbers can be written
			if val, err := lib.Eval(n, &lib.Env{K: k}); err == nil {
				switch val.(type) {
				case nil, bool, map[string]any, []any:
					mustFail = true
					labels = append(labels, "json-member-not-writable")
					return "", false
				}
			}
		}
		s, err := evalText(n, k, "")
		if err != nil {
			if errors.Is(err, lib.ErrMustFail) || isDivByConstZero(n) {
				mustFail = true
			} else {
				unknown = true
			}
			return "", false
		}
		return s, true
	}
	failAfterSuccess := false
	if c.Stmt.Kind == "put" {
		for _, p := range c.Stmt.Pairs {
			k, ok := evalOp(p[0], "")
			if !ok {
				if len(writes) > 0 {
					failAfterSuccess = true
				}
				continue
			}
			if k == "" {
				unknown = true // keys are non-empty byte strings
			}
			v, ok := evalOp(p[1], k)
			if !ok {
				failAfterSuccess = true
				continue
			}
			writes = append(writes, kv{k, v})
		}
	} else {
		for _, e := range c.Stmt.Keys {
			k, ok := evalOp(e, "")
			if !ok {
				if len(keys) > 0 {
					failAfterSuccess = true
				}
				continue
			}
			keys = append(keys, k)
		}
	}
	keyInKey := false
	for _, p := range c.Stmt.Pairs {
		if p[0].Has(func(x *lib.Node) bool { return x.K == "key" }) {
			keyInKey = true
		}
	}
	if keyInKey {
		// the key keyword stands for the evaluated key of its own pair: inside
		// the key expression of ANY pair it stands for nothing, the statement
		// is refused before anything is written (spec.md)
		in := lib.NewInstr(lib.NewStore(c.Pairs))
		b := lib.Build(q, in, lib.Cfg{Mode: "row", Batch: 32, Cache: true})
		if b.Panic != "" {
			return fmt.Sprintf("planning %q panicked: %s", q, b.Panic), true, labels
		}
		if b.BuildErr == nil {
			lib.SetGlobals(lib.Cfg{Mode: "row", Batch: 32, Cache: true})
			pollPlan(b.Plan, "N")
			return fmt.Sprintf("statement %q uses the key keyword inside a key expression but is accepted; executing it: storage calls %+v", q, in.Calls()), true, labels
		}
		if n := len(in.Calls()); n != 0 {
			return fmt.Sprintf("statement %q is refused (%v) but only after %d storage calls", q, b.BuildErr, n), true, labels
		}
		return "", len(c.Stmt.Pairs) > 1, append(labels, "key-in-put-key")
	}
	if unknown {
		return "", false, []string{"skipped-not-evaluable"}
	}
	in := lib.NewInstr(lib.NewStore(c.Pairs))
	cfg := lib.Cfg{Mode: "row", Batch: c.Batch, Cache: true}
	if cfg.Batch <= 0 {
		cfg.Batch = 32
	}
	b := lib.Build(q, in, cfg)
	if b.Panic != "" {
		return fmt.Sprintf("planning %q panicked: %s", q, b.Panic), true, labels
	}
	if b.BuildErr != nil {
		return "", false, []string{"rejected-by-engine"}
	}
	if n := len(in.Calls()); n != 0 {
		return fmt.Sprintf("building the plan of %q already issued %d storage calls: %v", q, n, in.Calls()), true, labels
	}
	lib.SetGlobals(cfg)
	results, perr, pan := pollPlan(b.Plan, c.Polls)
	if pan != "" {
		return fmt.Sprintf("executing %q (polls %s) panicked: %s", q, c.Polls, pan), true, labels
	}
	calls := in.Calls()
	show := func() string { return fmt.Sprintf("%+v", calls) }
	if mustFail {
		labels = append(labels, "failing-expression")
		nontrivial = failAfterSuccess
		if perr == nil {
			return fmt.Sprintf("statement %q contains an expression that fails to evaluate, but executing it returned no error (results %v, storage calls %s)", q, results, show()), nontrivial, labels
		}
		if len(calls) != 0 {
			return fmt.Sprintf("statement %q failed (%v) but storage was touched: %s", q, perr, show()), nontrivial, labels
		}
		if got, want := fmt.Sprint(in.S.Pairs()), fmt.Sprint(lib.NewStore(c.Pairs).Pairs()); got != want {
			return fmt.Sprintf("statement %q failed but the store changed: %s -> %s", q, want, got), nontrivial, labels
		}
		return "", nontrivial, labels
	}
	if perr != nil {
		return fmt.Sprintf("executing %q (polls %s) failed: %v", q, c.Polls, perr), true, labels
	}
	// exactly one write call with the pairs in order
	model := map[string]string{}
	for _, p := range c.Pairs {
		model[p.K] = p.V
	}
	if c.Stmt.Kind == "put" {
		for _, w := range writes {
			model[w.k] = w.v
		}
		wantOp := "BatchPut"
		if len(writes) == 1 {
			wantOp = "Put"
		}
		var flat []string
		for _, w := range writes {
			flat = append(flat, w.k, w.v)
		}
		if len(calls) != 1 || calls[0].Op != wantOp || fmt.Sprint(calls[0].Keys) != fmt.Sprint(flat) {
			return fmt.Sprintf("statement %q (polls %s) should issue exactly one %s%q, storage saw %s", q, c.Polls, wantOp, flat, show()), true, labels
		}
		dup := map[string]bool{}
		for _, w := range writes {
			if dup[w.k] {
				nontrivial = true
			}
			dup[w.k] = true
		}
		for _, p := range c.Stmt.Pairs {
			if p[1].Has(func(x *lib.Node) bool { return x.K == "key" }) {
				nontrivial = true
				labels = append(labels, "value-uses-key")
			}
		}
	} else {
		for _, k := range keys {
			delete(model, k)
		}
		wantOp := "BatchDelete"
		if len(keys) == 1 {
			wantOp = "Delete"
		}
		if len(calls) != 1 || calls[0].Op != wantOp || fmt.Sprint(calls[0].Keys) != fmt.Sprint(keys) {
			return fmt.Sprintf("statement %q (polls %s) should issue exactly one %s%q, storage saw %s", q, c.Polls, wantOp, keys, show()), true, labels
		}
		for _, k := range keys {
			for _, p := range c.Pairs {
				if p.K == k {
					nontrivial = true
				}
			}
		}
	}
	if got, want := fmt.Sprint(in.S.Pairs()), fmt.Sprint(modelPairs(model)); got != want {
		return fmt.Sprintf("after %q the store is %s, expected %s", q, got, want), true, labels
	}
	// round 10: the same statement against a store that refuses the write.
	// The write is attempted once and only once however the plan is polled
	// on (each poll separately, whatever it answers), and nothing is stored.
	if len(c.Polls) > 1 {
		in2 := lib.NewInstr(lib.NewStore(c.Pairs))
		in2.FailAt = 0
		if b2 := lib.Build(q, in2, cfg); b2.Plan != nil && b2.Panic == "" {
			lib.SetGlobals(cfg)
			sawErr := false
			for _, pl := range c.Polls {
				_, e, pan2 := pollPlan(b2.Plan, string(pl))
				if pan2 != "" {
					return fmt.Sprintf("executing %q (polls %s) against a store that refuses the write panicked: %s", q, c.Polls, pan2), true, labels
				}
				sawErr = sawErr || e != nil
			}
			calls2 := in2.Calls()
			if !sawErr {
				return fmt.Sprintf("statement %q (polls %s): the store refused the write, no poll reported an error; storage saw %+v", q, c.Polls, calls2), true, labels
			}
			if len(calls2) != 1 {
				return fmt.Sprintf("statement %q (polls %s): the store refused the write and the statement reported it, the write must not be issued again; storage saw %+v", q, c.Polls, calls2), true, labels
			}
			if got, want := fmt.Sprint(in2.S.Pairs()), fmt.Sprint(lib.NewStore(c.Pairs).Pairs()); got != want {
				return fmt.Sprintf("statement %q (polls %s): the store refused the write but changed: %s -> %s", q, c.Polls, want, got), true, labels
			}
			labels = append(labels, "refused-write-re-polled")
		}
	}
	// polls after the first one return end-of-stream
	for i, r := range results {
		if i == 0 {
			if r == nil {
				return fmt.Sprintf("first poll of %q returned end-of-stream", q), true, labels
			}
			continue
		}
		if r != nil {
			return fmt.Sprintf("poll %d of the finished statement %q returned %s instead of end-of-stream", i+1, q, lib.ShowRow(r)), true, labels
		}
	}
	if len(c.Polls) > 1 {
		labels = append(labels, "re-polled")
	}
	// a following select observes the writes
	if c.Stmt.Kind == "put" && len(writes) > 0 {
		last := writes[len(writes)-1]
		if _, ok := lib.Quote(last.k); ok {
			sq := (&lib.Stmt{Kind: "select", Star: true, Where: lib.Bin("=", lib.Key(), lib.Str(last.k))}).Render()
			res := lib.Run(sq, in.S, len(model), cfg)
			want := [][]any{{last.k, model[last.k]}}
			if res.Failed() || !lib.EqualRows(res.Rows, want) {
				return fmt.Sprintf("after %q, %q should return %s, got %s", q, sq, lib.ShowRows(want), res.Describe()), true, labels
			}
		}
	}
	return "", nontrivial, labels
}

func isDivByConstZero(n *lib.Node) bool {
	return n.Has(func(x *lib.Node) bool {
		if x.K != "bin" || x.S != "/" {
			return false
		}
		v, err := lib.Eval(x.A[1], &lib.Env{K: "k"})
		if err != nil {
			return false
		}
		switch z := v.(type) {
		case int64:
			return z == 0
		case float64:
			return z == 0
		}
		return false
	})
}

func TestC12(t *testing.T) {
	rapid.Check(t, func(rt *rapid.T) {
		kind := rapid.SampledFrom([]lib.StoreKind{lib.KInt, lib.KWord, lib.KCSV}).Draw(rt, "kind")
		pairs := lib.GenStore(rt, kind, rapid.SampledFrom([]int{0, 2, 5, 9}).Draw(rt, "n"))
		var st *lib.Stmt
		if rapid.IntRange(0, 2).Draw(rt, "remove") == 0 {
			st = lib.GenRemove(rt, kind, pairs, false)
			if len(pairs) > 0 && rapid.Bool().Draw(rt, "existing") {
				k := rapid.SampledFrom(pairs).Draw(rt, "victim").K
				if _, ok := lib.Quote(k); ok {
					st.Keys[rapid.IntRange(0, len(st.Keys)-1).Draw(rt, "victimPos")] = lib.Str(k)
				}
			}
			if rapid.IntRange(0, 3).Draw(rt, "failing") == 0 {
				st.Keys[rapid.IntRange(0, len(st.Keys)-1).Draw(rt, "failPos")] = rapid.SampledFrom(c12FailingExprs()).Draw(rt, "failExpr")
			}
			if rapid.IntRange(0, 5).Draw(rt, "jsonMember") == 0 {
				st.Keys[rapid.IntRange(0, len(st.Keys)-1).Draw(rt, "jsonPos")] = rapid.SampledFrom(c12JSONMembers()).Draw(rt, "jsonExpr")
			}
		} else {
			st = lib.GenPut(rt, kind, pairs, false)
			if rapid.IntRange(0, 3).Draw(rt, "failing") == 0 {
				i := rapid.IntRange(0, len(st.Pairs)-1).Draw(rt, "failPos")
				f := rapid.SampledFrom(c12FailingExprs()).Draw(rt, "failExpr")
				if rapid.Bool().Draw(rt, "failInKey") {
					st.Pairs[i][0] = f
				} else {
					st.Pairs[i][1] = f
				}
			}
			if rapid.IntRange(0, 9).Draw(rt, "keyInKey") == 0 {
				// the key keyword inside the key expression of one of the pairs
				i := rapid.IntRange(0, len(st.Pairs)-1).Draw(rt, "keyInKeyPos")
				forms := []*lib.Node{lib.Key(), lib.Call("upper", lib.Key()), lib.Bin("+", lib.Key(), lib.Str("b")), lib.Bin("+", lib.Str("k"), lib.Call("lower", lib.Key()))}
				st.Pairs[i][0] = rapid.SampledFrom(forms).Draw(rt, "keyInKeyForm")
			}
			if rapid.IntRange(0, 5).Draw(rt, "jsonMember") == 0 {
				i := rapid.IntRange(0, len(st.Pairs)-1).Draw(rt, "jsonPos")
				st.Pairs[i][rapid.IntRange(0, 1).Draw(rt, "jsonInValue")] = rapid.SampledFrom(c12JSONMembers()).Draw(rt, "jsonExpr")
			}
		}
		c := &c12Case{Stmt: st, Pairs: pairs, Polls: genPolls(rt), Batch: rapid.SampledFrom([]int{1, 2, 3, 32}).Draw(rt, "batch")}
		lib.Journal("C12", "c12", c)
		msg, nt, labels := checkC12(c)
		labels = append(labels, "stmt="+st.Kind)
		lib.Stats.Case(nt, c.Query+"|"+fmt.Sprint(pairs, c.Polls, c.Batch), labels, func() any {
			return map[string]any{"query": c.Query, "prior_pairs": len(pairs), "polls": c.Polls, "batch": c.Batch}
		})
		if msg != "" {
			fail(rt, "C12", "c12", msg, c)
		}
	})
}

func TestC12History(t *testing.T) { historyTest(t, "C12", 2) }

// ---- pairs are evaluated independently ---------------------------------------

type c12IndCase struct {
	Stmt  *lib.Stmt  `json:"stmt"` // multi-pair PUT whose key expressions may mention `key`
	Pairs []lib.Pair `json:"pairs"`
	Query string     `json:"query"`
}

func init() {
	registerReplay("c12ind", func(c *c12IndCase) string { m, _, _ := checkC12Ind(c); return m })
}

// checkC12Ind (metamorphic, no reference evaluator): `put p1, ..., pn` must
// issue the same writes as the n statements `put p1`; ...; `put pn` executed
// in order - the evaluated pairs are applied in order, so no pair may depend
// on its neighbours.
func checkC12Ind(c *c12IndCase) (msg string, nontrivial bool, labels []string) {
	q := c.Stmt.Render()
	c.Query = q
	cfg := lib.Cfg{Mode: "batch", Batch: 32, Cache: true}
	all := lib.NewInstr(lib.NewStore(c.Pairs))
	res := lib.Run(q, all, len(c.Pairs), cfg)
	if res.BuildErr != nil {
		return "", false, []string{"rejected-by-engine"}
	}
	if res.Panic != "" || res.StepCap {
		return fmt.Sprintf("statement %q: %s", q, res.Describe()), true, labels
	}
	one := lib.NewInstr(lib.NewStore(c.Pairs))
	var singles []string
	failed := false
	for _, p := range c.Stmt.Pairs {
		sq := (&lib.Stmt{Kind: "put", Pairs: [][2]*lib.Node{p}}).Render()
		singles = append(singles, sq)
		r := lib.Run(sq, one, len(c.Pairs), cfg)
		if r.Failed() {
			failed = true
			break
		}
	}
	if failed {
		// some pair fails on its own: the whole statement must fail and write nothing
		if res.ExecErr == nil {
			return fmt.Sprintf("statement %q completes although one of its pairs fails when put on its own (%q)", q, singles[len(singles)-1]), true, labels
		}
		return "", false, append(labels, "failing-pair")
	}
	if res.ExecErr != nil {
		return fmt.Sprintf("statement %q fails (%v) although each of its pairs can be put on its own: %q", q, res.ExecErr, singles), true, labels
	}
	var wa, wb []string
	for _, cl := range all.Calls() {
		if cl.Op == "Put" || cl.Op == "BatchPut" {
			wa = append(wa, cl.Keys...)
		}
	}
	for _, cl := range one.Calls() {
		if cl.Op == "Put" || cl.Op == "BatchPut" {
			wb = append(wb, cl.Keys...)
		}
	}
	if fmt.Sprint(wa) != fmt.Sprint(wb) {
		return fmt.Sprintf("statement %q writes %q, but putting its pairs one statement at a time (%q) writes %q", q, wa, singles, wb), true, labels
	}
	if got, want := fmt.Sprint(all.S.Pairs()), fmt.Sprint(one.S.Pairs()); got != want {
		return fmt.Sprintf("statement %q leaves %s, its pairs put one at a time leave %s", q, got, want), true, labels
	}
	keyInKey := false
	for _, p := range c.Stmt.Pairs {
		if p[0].Has(func(x *lib.Node) bool { return x.K == "key" }) {
			keyInKey = true
		}
	}
	if keyInKey {
		labels = append(labels, "key-inside-key-expression")
	}
	return "", len(c.Stmt.Pairs) >= 2, labels
}

func TestC12Independent(t *testing.T) {
	rapid.Check(t, func(rt *rapid.T) {
		kind := rapid.SampledFrom([]lib.StoreKind{lib.KInt, lib.KWord, lib.KCSV}).Draw(rt, "kind")
		pairs := lib.GenStore(rt, kind, rapid.SampledFrom([]int{0, 2, 5}).Draw(rt, "n"))
		st := lib.GenPut(rt, kind, pairs, false)
		// (key expressions no longer mention `key`: since repair 56 of DESIGN
		// 8.1 the engine refuses that, as spec.md says; the refusal is C14's)
		c := &c12IndCase{Stmt: st, Pairs: pairs}
		lib.Journal("C12", "c12ind", c)
		msg, nt, labels := checkC12Ind(c)
		lib.Stats.Case(nt, "ind|"+c.Query+fmt.Sprint(pairs), labels, func() any { return map[string]any{"query": c.Query, "prior_pairs": len(pairs)} })
		if msg != "" {
			fail(rt, "C12", "c12ind", msg, c)
		}
	})
}

// ---------------------------------------------------------------------------
// Operands whose text form the documentation does not spell out (floats):
// the reference cannot name the key, but PUT and REMOVE must agree on it.

type c12FloatCase struct {
	Keys  []*lib.Node `json:"keys"`  // float-valued key expressions
	Extra []string    `json:"extra"` // plain text keys put alongside
	Gone  []int       `json:"gone"`  // indexes into Keys that the REMOVE lists
	Batch int         `json:"batch"`
	Polls string      `json:"polls"`
	Query string      `json:"query"`
}

func init() {
	registerReplay("c12float", func(c *c12FloatCase) string { m, _ := checkC12Float(c); return m })
}

// checkC12Float: `put (e1,'v1'),..,(en,'vn'),('t1','x'),..` on an empty store,
// then `remove ei,...` must leave exactly the pairs whose key PUT wrote for
// the expressions that are not listed (one text per expression value: two
// expressions of equal value name one key).
func checkC12Float(c *c12FloatCase) (msg string, nontrivial bool) {
	cfg := lib.Cfg{Mode: "row", Batch: c.Batch, Cache: true}
	if cfg.Batch <= 0 {
		cfg.Batch = 32
	}
	vals := make([]float64, len(c.Keys))
	for i, e := range c.Keys {
		v, err := lib.Eval(e, &lib.Env{})
		f, ok := v.(float64)
		if err != nil || !ok {
			return "", false
		}
		vals[i] = f
	}
	put := &lib.Stmt{Kind: "put"}
	for i, e := range c.Keys {
		put.Pairs = append(put.Pairs, [2]*lib.Node{e.Clone(), lib.Str(fmt.Sprintf("v%d", i))})
	}
	for _, k := range c.Extra {
		put.Pairs = append(put.Pairs, [2]*lib.Node{lib.Str(k), lib.Str("x")})
	}
	pq := put.Render()
	in := lib.NewInstr(lib.NewStore(nil))
	b := lib.Build(pq, in, cfg)
	if b.Panic != "" {
		return fmt.Sprintf("planning %q panicked: %s", pq, b.Panic), true
	}
	if b.BuildErr != nil {
		return "", false
	}
	lib.SetGlobals(cfg)
	if _, perr, pan := pollPlan(b.Plan, "N"); pan != "" {
		return fmt.Sprintf("executing %q panicked: %s", pq, pan), true
	} else if perr != nil {
		return fmt.Sprintf("executing %q failed: %v", pq, perr), true
	}
	calls := in.Calls()
	if len(calls) != 1 || len(calls[0].Keys) != 2*len(put.Pairs) {
		return fmt.Sprintf("%q should issue one write of %d pairs, storage saw %+v", pq, len(put.Pairs), calls), true
	}
	written := make([]string, len(c.Keys)) // key text PUT chose for expression i
	for i := range c.Keys {
		written[i] = calls[0].Keys[2*i]
	}
	// equal values must have been written under one key
	for i := range vals {
		for j := range vals {
			// (the same value: +0 and -0 compare equal but are written as
			// "0.000000" and "-0.000000", which nothing forbids)
			if math.Float64bits(vals[i]) == math.Float64bits(vals[j]) && written[i] != written[j] {
				return fmt.Sprintf("%q wrote the values %v and %v under the keys %q and %q", pq, vals[i], vals[j], written[i], written[j]), true
			}
		}
	}
	after := in.S.Pairs()
	rm := &lib.Stmt{Kind: "remove"}
	gone := map[string]bool{}
	for _, gi := range c.Gone {
		if gi < 0 || gi >= len(c.Keys) {
			continue
		}
		rm.Keys = append(rm.Keys, c.Keys[gi].Clone())
		gone[written[gi]] = true
	}
	if len(rm.Keys) == 0 {
		return "", false
	}
	rq := rm.Render()
	c.Query = pq + "; " + rq
	in2 := lib.NewInstr(in.S)
	b2 := lib.Build(rq, in2, cfg)
	if b2.Panic != "" {
		return fmt.Sprintf("planning %q panicked: %s", rq, b2.Panic), true
	}
	if b2.BuildErr != nil {
		return fmt.Sprintf("%q is accepted but %q is refused: %v", pq, rq, b2.BuildErr), true
	}
	lib.SetGlobals(cfg)
	polls := c.Polls
	if polls == "" {
		polls = "N"
	}
	if _, perr, pan := pollPlan(b2.Plan, polls); pan != "" {
		return fmt.Sprintf("executing %q panicked: %s", rq, pan), true
	} else if perr != nil {
		return fmt.Sprintf("executing %q failed: %v", rq, perr), true
	}
	var want []lib.Pair
	for _, p := range after {
		if !gone[p.K] {
			want = append(want, p)
		}
	}
	if got, w := fmt.Sprint(in2.S.Pairs()), fmt.Sprint(want); got != w {
		return fmt.Sprintf("after %q the store is %v; %q should leave %s, the store is %s (storage calls %+v)", pq, after, rq, w, got, in2.Calls()), true
	}
	return "", len(want) > 0
}

// TestC12FloatKeys: float-valued key expressions in PUT and REMOVE.
func TestC12FloatKeys(t *testing.T) {
	rapid.Check(t, func(rt *rapid.T) {
		kc := &lib.GenCtx{Kind: lib.KWord, NoKey: true, NoValue: true}
		n := rapid.IntRange(1, 4).Draw(rt, "nkeys")
		c := &c12FloatCase{Batch: rapid.SampledFrom([]int{1, 2, 32}).Draw(rt, "batch"), Polls: rapid.SampledFrom([]string{"N", "B", "NN", "BN"}).Draw(rt, "polls")}
		for i := 0; i < n; i++ {
			c.Keys = append(c.Keys, kc.GenFloat(rt, rapid.IntRange(0, 2).Draw(rt, "depth")))
		}
		for i := rapid.IntRange(0, 2).Draw(rt, "nextra"); i > 0; i-- {
			c.Extra = append(c.Extra, rapid.SampledFrom([]string{"t", "1.5", "1.500000", "2", "k"}).Draw(rt, "extra"))
		}
		for i := 0; i < n; i++ {
			if rapid.Bool().Draw(rt, "gone") {
				c.Gone = append(c.Gone, i)
			}
		}
		lib.Journal("C12", "c12float", c)
		msg, nt := checkC12Float(c)
		lib.Stats.Case(nt, c.Query+fmt.Sprint(c.Batch, c.Polls), []string{fmt.Sprintf("nkeys=%d", n)}, func() any {
			return map[string]any{"statements": c.Query}
		})
		if msg != "" {
			fail(rt, "C12", "c12float", msg, c)
		}
	})
}
