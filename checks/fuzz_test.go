package checks

import (
	"os"
	"strconv"
	"strings"
	"testing"

	"pgregory.net/rapid"

	"verif/lib"
)

// Native coverage-guided fuzzing (thorough tier only). The semantic oracle
// is inside the target: checkC06 executes the statement in both iteration
// modes and renders every error.

func c06FuzzSeeds() []string {
	seeds := append([]string(nil), c06SeedQueries...)
	gen := rapid.Custom(func(t *rapid.T) string {
		kind := lib.GenKind(t)
		pairs := lib.GenStore(t, kind, 4)
		q := lib.GenAnyStmt(t, kind, pairs, true).Render()
		if rapid.Bool().Draw(t, "corrupt") {
			q, _ = lib.Corrupt(t, q, "select key, int(value) as n where n > 1 order by n limit 1, 2")
		}
		return q
	})
	for i := 1; i <= 300; i++ {
		seeds = append(seeds, gen.Example(i))
	}
	return seeds
}

func FuzzC06(f *testing.F) {
	for i, q := range c06FuzzSeeds() {
		f.Add(q, uint8(i%6))
	}
	f.Fuzz(func(t *testing.T, query string, storeSel uint8) {
		if len(query) > 4096 {
			return
		}
		c := &c06Case{Query: query, Pairs: lib.FixedHostileStore(int(storeSel))}
		lib.Journal("C06", "c06", c)
		if msg, _, _ := checkC06(c); msg != "" {
			fail(t, "C06", "c06", msg, c)
		}
	})
}

// FuzzC16: the lexer oracle under byte-level mutation.
func FuzzC16(f *testing.F) {
	for _, q := range c06SeedQueries {
		f.Add(q)
	}
	f.Fuzz(func(t *testing.T, query string) {
		// any bytes: the token-truth invariants hold for every input, the
		// reference tokeniser abstains where the documentation is silent
		if msg := checkC16(query); msg != "" {
			fail(t, "C16", "c16", msg, &c16Case{Query: query})
		}
	})
}

// FuzzC17: error positions and rendering under byte-level mutation.
func FuzzC17(f *testing.F) {
	for i, q := range c06FuzzSeeds() {
		f.Add(q, uint8(i%4))
	}
	f.Fuzz(func(t *testing.T, query string, padMode uint8) {
		if len(query) > 2048 {
			return
		}
		c := &c17Case{Query: query, Pairs: lib.FixedHostileStore(1), PadMode: int(padMode % 4)}
		lib.Journal("C17", "c17", c)
		if msg, _, _ := checkC17(c); msg != "" {
			fail(t, "C17", "c17", msg, c)
		}
	})
}

// TestConvertCrasher (driver helper) turns a saved go-fuzz input into a
// replay file: VERIF_CRASHER=<file> VERIF_CRASHER_FUZZ=<FuzzName>.
func TestConvertCrasher(t *testing.T) {
	path := os.Getenv("VERIF_CRASHER")
	if path == "" {
		t.Skip("driver helper")
	}
	b, err := os.ReadFile(path)
	if err != nil {
		t.Fatal(err)
	}
	var strs []string
	var bytesV []int
	for _, line := range strings.Split(string(b), "\n") {
		line = strings.TrimSpace(line)
		switch {
		case strings.HasPrefix(line, "string(") && strings.HasSuffix(line, ")"):
			s, err := strconv.Unquote(line[len("string(") : len(line)-1])
			if err != nil {
				t.Fatalf("cannot unquote %q: %v", line, err)
			}
			strs = append(strs, s)
		case strings.HasPrefix(line, "byte(") && strings.HasSuffix(line, ")"):
			lit := line[len("byte(") : len(line)-1]
			if r, _, _, err := strconv.UnquoteChar(strings.Trim(lit, "'"), '\''); err == nil {
				bytesV = append(bytesV, int(r))
			} else if n, err := strconv.ParseInt(lit, 0, 16); err == nil {
				bytesV = append(bytesV, int(n))
			}
		case strings.HasPrefix(line, "uint8(") && strings.HasSuffix(line, ")"):
			if n, err := strconv.ParseInt(line[len("uint8("):len(line)-1], 0, 16); err == nil {
				bytesV = append(bytesV, int(n))
			}
		}
	}
	if len(strs) == 0 {
		t.Fatalf("no string argument in %s", path)
	}
	sel := 0
	if len(bytesV) > 0 {
		sel = bytesV[0]
	}
	msg := "process died (fatal runtime error) on this input found by native fuzzing"
	switch os.Getenv("VERIF_CRASHER_FUZZ") {
	case "FuzzC06":
		lib.WriteFail("C06", "c06", msg, &c06Case{Query: strs[0], Pairs: lib.FixedHostileStore(sel)})
	case "FuzzC16":
		lib.WriteFail("C16", "c16", msg, &c16Case{Query: strs[0]})
	case "FuzzC17":
		lib.WriteFail("C17", "c17", msg, &c17Case{Query: strs[0], Pairs: lib.FixedHostileStore(1), PadMode: sel % 4})
	default:
		t.Fatalf("unknown fuzz target")
	}
}
