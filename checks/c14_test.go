package checks

import (
	"fmt"
	"os"
	"strings"
	"testing"

	"pgregory.net/rapid"

	"verif/lib"
)

// C14 — statically wrong statements are rejected before any storage access;
// well-typed statements are accepted and never fail with an operand-type
// error.

type c14Case struct {
	Stmt   *lib.Stmt  `json:"stmt"`
	Pairs  []lib.Pair `json:"pairs"`
	Mutant bool       `json:"mutant"` // true: must be rejected; false: must be accepted
	Fault  string     `json:"fault,omitempty"`
	Query  string     `json:"query"`
	// Raw: statement text for shapes the generating AST cannot express (an
	// expression as a subscript); used instead of Stmt when set
	Raw string `json:"raw,omitempty"`
}

func init() { registerReplay("c14", func(c *c14Case) string { m, _, _ := checkC14(c); return m }) }

var operandTypeErr = []string{
	"wrong type", "not boolean", "not string", "not number", "parameter type", "not list", "not JSON", "not List",
	"require number type", "require string type", "Cannot find function", "arguments but got", "is not boolean",
}

func isOperandTypeError(err error) bool {
	m := err.Error()
	for _, s := range operandTypeErr {
		if strings.Contains(m, s) {
			return true
		}
	}
	return false
}

func checkC14(c *c14Case) (msg string, nontrivial bool, labels []string) {
	q := c.Raw
	if q == "" {
		q = c.Stmt.Render()
	} else if c.Stmt == nil {
		c.Stmt = &lib.Stmt{Kind: "select", Star: true, Where: lib.Bin("=", lib.Int(1), lib.Int(1))}
	}
	c.Query = q
	if c.Mutant {
		for _, mode := range []string{"row"} {
			in := lib.NewInstr(lib.NewStore(c.Pairs))
			res := lib.Build(q, in, lib.Cfg{Mode: mode, Batch: 32, Cache: true})
			if res.Panic != "" {
				return fmt.Sprintf("planning the ill-typed statement %q panicked: %s", q, res.Panic), true, labels
			}
			calls := in.Calls()
			if res.BuildErr == nil {
				// show what happens when it runs, for the report
				lib.Drain(res, lib.Cfg{Mode: mode, Batch: 32, Cache: true}, 4*len(c.Pairs)+64)
				return fmt.Sprintf("statement %q contains a static fault (%s) but is accepted when the plan is built (%d storage calls so far; executing it: %s)", q, c.Fault, len(calls), res.Describe()), true, labels
			}
			if len(calls) != 0 {
				return fmt.Sprintf("statement %q is rejected (%v) but only after %d storage calls: %v", q, res.BuildErr, len(calls), calls), true, labels
			}
		}
		return "", true, labels
	}
	// well-typed: accepted, and no operand-type error at run time
	for _, cfg := range []lib.Cfg{{Mode: "row", Batch: 32, Cache: true}, {Mode: "batch", Batch: 3, Cache: true}} {
		res := lib.Run(q, lib.NewStore(c.Pairs), len(c.Pairs), cfg)
		if res.Panic != "" || res.StepCap {
			return fmt.Sprintf("well-typed statement %q [%s]: %s", q, cfg, res.Describe()), true, labels
		}
		if res.BuildErr != nil {
			return fmt.Sprintf("statement %q is well-typed by the documented rules but is refused: %v", q, res.BuildErr), true, labels
		}
		if res.ExecErr != nil {
			if isOperandTypeError(res.ExecErr) {
				return fmt.Sprintf("well-typed statement %q over %v [%s] fails at run time with an operand-type error: %v", q, c.Pairs, cfg, res.ExecErr), true, labels
			}
			labels = append(labels, "other-runtime-error")
		}
	}
	nops := 0
	count := func(n *lib.Node) {
		if n != nil {
			nops += n.Count(func(x *lib.Node) bool {
				return x.K == "bin" || x.K == "in" || x.K == "between" || x.K == "not" || x.K == "call"
			})
		}
	}
	count(c.Stmt.Where)
	for _, f := range c.Stmt.Fields {
		count(f.E)
	}
	for _, p := range c.Stmt.Pairs {
		count(p[0])
		count(p[1])
	}
	for _, k := range c.Stmt.Keys {
		count(k)
	}
	return "", nops >= 2, labels
}

// ---- single-fault mutants --------------------------------------------------------

type c14Fault struct {
	Name string
	Make func() *lib.Node
}

var c14IntFaults = []c14Fault{
	{"text-operand-of-*", func() *lib.Node { return lib.Bin("*", lib.Int(1), lib.Str("a")) }},
	{"text-operand-of--", func() *lib.Node { return lib.Bin("-", lib.Key(), lib.Int(2)) }},
	{"text-operand-of-/", func() *lib.Node { return lib.Bin("/", lib.Int(4), lib.Str("2")) }},
	{"number+text", func() *lib.Node { return lib.Bin("+", lib.Int(1), lib.Str("a")) }},
	{"arity-too-many", func() *lib.Node { return lib.Call("strlen", lib.Key(), lib.Key()) }},
	{"arity-too-few", func() *lib.Node { return lib.Call("strlen") }},
	{"unknown-function-in-argument", func() *lib.Node { return lib.Call("strlen", lib.Call("nosuchfn", lib.Key())) }},
	{"fault-in-argument", func() *lib.Node { return lib.Call("int", lib.Bin("+", lib.Key(), lib.Int(1))) }},
	{"vararg-too-few", func() *lib.Node { return lib.Call("len", lib.Call("list")) }},
	{"fault-in-list-element", func() *lib.Node {
		return lib.Index(lib.Call("int_list", lib.Int(1), lib.Bin("*", lib.Int(2), lib.Str("x"))), 0)
	}},
}

var c14TextFaults = []c14Fault{
	{"text+number", func() *lib.Node { return lib.Bin("+", lib.Key(), lib.Int(1)) }},
	{"arity-too-many", func() *lib.Node { return lib.Call("upper", lib.Key(), lib.Key()) }},
	{"arity-too-few", func() *lib.Node { return lib.Call("substr", lib.Key(), lib.Int(1)) }},
	{"unknown-function-in-argument", func() *lib.Node { return lib.Call("upper", lib.Call("nosuchfn", lib.Key())) }},
	{"fault-in-argument", func() *lib.Node { return lib.Call("lower", lib.Call("str", lib.Bin("*", lib.Str("a"), lib.Int(2)))) }},
	{"text-operand-of-/-in-argument", func() *lib.Node { return lib.Call("str", lib.Bin("/", lib.Int(1), lib.Str("x"))) }},
	{"vararg-too-few", func() *lib.Node { return lib.Call("join", lib.Str(",")) }},
	{"fault-in-vararg-argument", func() *lib.Node {
		return lib.Call("join", lib.Str(","), lib.Key(), lib.Bin("-", lib.Str("a"), lib.Int(1)))
	}},
}

var c14BoolFaults = []c14Fault{
	{"text=number", func() *lib.Node { return lib.Bin("=", lib.Key(), lib.Int(1)) }},
	{"number<text", func() *lib.Node { return lib.Bin("<", lib.Call("strlen", lib.Key()), lib.Str("a")) }},
	{"number-operand-of-^=", func() *lib.Node { return lib.Bin("^=", lib.Key(), lib.Int(1)) }},
	{"number-operand-of-~=", func() *lib.Node { return lib.Bin("~=", lib.Int(1), lib.Str("a")) }},
	{"non-boolean-operand-of-!", func() *lib.Node { return lib.Not(lib.Key()) }},
	{"non-boolean-operand-of-&", func() *lib.Node { return lib.Bin("&", lib.Call("is_int", lib.Key()), lib.Call("strlen", lib.Key())) }},
	{"non-boolean-operand-of-or", func() *lib.Node { return lib.Bin("or", lib.Call("upper", lib.Key()), lib.Call("is_int", lib.Key())) }},
	{"non-boolean-operand-of-and", func() *lib.Node {
		return lib.Bin("and", lib.Call("is_int", lib.Key()), lib.Bin("+", lib.Int(1), lib.Int(2)))
	}},
	{"between-bound-type", func() *lib.Node { return lib.Between(lib.Key(), lib.Int(1), lib.Int(2)) }},
	{"in-item-type", func() *lib.Node { return lib.In(lib.Key(), lib.Int(1), lib.Int(2)) }},
	{"arity-too-many", func() *lib.Node { return lib.Call("is_int", lib.Key(), lib.Key()) }},
	{"unknown-function-in-argument", func() *lib.Node { return lib.Call("is_int", lib.Call("nosuchfn", lib.Key())) }},
	{"fault-under-!", func() *lib.Node { return lib.Not(lib.Bin("^=", lib.Key(), lib.Int(1))) }},
	{"fault-in-in-item", func() *lib.Node { return lib.In(lib.Key(), lib.Str("a"), lib.Bin("+", lib.Str("b"), lib.Int(1))) }},
	{"fault-in-between-bound", func() *lib.Node {
		return lib.Between(lib.Call("strlen", lib.Key()), lib.Int(1), lib.Bin("*", lib.Int(2), lib.Str("x")))
	}},
	{"fault-in-index-base", func() *lib.Node {
		return lib.Bin("=", lib.Index(lib.Call("split", lib.Bin("+", lib.Key(), lib.Int(1)), lib.Str(",")), 0), lib.Str("a"))
	}},
}

// nodeSlot is a place in a statement where an expression stands.
type nodeSlot struct {
	get    func() *lib.Node
	set    func(*lib.Node)
	parent string // kind of the parent position
}

func collectSlots(st *lib.Stmt) []nodeSlot {
	var slots []nodeSlot
	var walk func(n *lib.Node, parent string)
	walk = func(n *lib.Node, parent string) {
		for i := range n.A {
			i := i
			child := n.A[i]
			pk := n.K
			if n.K == "bin" {
				pk = "bin:" + n.S
			}
			if n.K == "call" {
				pk = "call-argument"
				if lib.AggrNames[n.S] {
					pk = "aggregate-argument"
				}
			}
			if n.K == "in" && i > 0 {
				pk = "in-item"
			}
			if n.K == "between" && i > 0 {
				pk = "between-bound"
			}
			slots = append(slots, nodeSlot{get: func() *lib.Node { return n.A[i] }, set: func(x *lib.Node) { n.A[i] = x }, parent: pk})
			walk(child, pk)
		}
	}
	if st.Where != nil {
		slots = append(slots, nodeSlot{get: func() *lib.Node { return st.Where }, set: func(x *lib.Node) { st.Where = x }, parent: "where-root"})
		walk(st.Where, "where-root")
	}
	for i := range st.Fields {
		i := i
		slots = append(slots, nodeSlot{get: func() *lib.Node { return st.Fields[i].E }, set: func(x *lib.Node) { st.Fields[i].E = x }, parent: "select-field"})
		walk(st.Fields[i].E, "select-field")
	}
	for i := range st.Pairs {
		i := i
		for j := 0; j < 2; j++ {
			j := j
			slots = append(slots, nodeSlot{get: func() *lib.Node { return st.Pairs[i][j] }, set: func(x *lib.Node) { st.Pairs[i][j] = x }, parent: "put-operand"})
			walk(st.Pairs[i][j], "put-operand")
		}
	}
	for i := range st.Keys {
		i := i
		slots = append(slots, nodeSlot{get: func() *lib.Node { return st.Keys[i] }, set: func(x *lib.Node) { st.Keys[i] = x }, parent: "remove-operand"})
		walk(st.Keys[i], "remove-operand")
	}
	return slots
}

// mutateStmt plants one clear-cut static fault at a generated position.
func mutateStmt(rt *rapid.T, orig *lib.Stmt) (*lib.Stmt, string) {
	st := orig.Clone()
	// statement-form faults
	switch st.Kind {
	case "put":
		if rapid.IntRange(0, 3).Draw(rt, "putValueFault") == 0 {
			i := rapid.IntRange(0, len(st.Pairs)-1).Draw(rt, "putPair")
			st.Pairs[i][1] = lib.Bin("+", lib.Str("v"), lib.Value())
			return st, "value-inside-put@put-operand"
		}
	case "remove":
		if rapid.IntRange(0, 2).Draw(rt, "removeFieldFault") == 0 {
			i := rapid.IntRange(0, len(st.Keys)-1).Draw(rt, "removeKey")
			if rapid.Bool().Draw(rt, "removeKeyKw") {
				st.Keys[i] = lib.Call("upper", lib.Key())
				return st, "key-inside-remove@remove-operand"
			}
			st.Keys[i] = lib.Bin("+", lib.Value(), lib.Str("x"))
			return st, "value-inside-remove@remove-operand"
		}
	}
	slots := collectSlots(st)
	var usable []nodeSlot
	for _, s := range slots {
		switch s.get().T {
		case lib.TyInt, lib.TyFloat, lib.TyText, lib.TyBool:
			if s.get().K == "ref" && s.parent == "select-field" {
				continue
			}
			usable = append(usable, s)
		}
	}
	if len(usable) == 0 {
		return nil, ""
	}
	s := usable[rapid.IntRange(0, len(usable)-1).Draw(rt, "slot")]
	var f c14Fault
	switch s.get().T {
	case lib.TyInt, lib.TyFloat:
		f = rapid.SampledFrom(c14IntFaults).Draw(rt, "intFault")
	case lib.TyText:
		f = rapid.SampledFrom(c14TextFaults).Draw(rt, "textFault")
	default:
		f = rapid.SampledFrom(c14BoolFaults).Draw(rt, "boolFault")
	}
	n := f.Make()
	if (st.Kind == "put" || st.Kind == "remove") && n.Has(func(x *lib.Node) bool { return x.K == "key" }) {
		// keep the planted fault the only one: no key keyword where the form forbids it
		n.Walk(func(x *lib.Node) {
			if x.K == "key" {
				*x = *lib.Str("k")
			}
		})
	}
	s.set(n)
	return st, f.Name + "@" + s.parent
}

func genC14Base(rt *rapid.T, exotic bool) (*lib.Stmt, []lib.Pair) {
	kind := lib.GenKind(rt)
	pairs := lib.GenStore(rt, kind, rapid.SampledFrom([]int{0, 2, 5, 9}).Draw(rt, "n"))
	switch rapid.IntRange(0, 9).Draw(rt, "stmtKind") {
	case 0:
		return lib.GenPut(rt, kind, pairs, exotic), pairs
	case 1:
		return lib.GenRemove(rt, kind, pairs, exotic), pairs
	case 2:
		return lib.GenDelete(rt, kind, pairs, exotic), pairs
	}
	return lib.GenSelect(rt, kind, pairs, lib.SelOpts{Aliases: true, Aggregate: 1, Order: true, Limit: true, Exotic: exotic}), pairs
}

// TestC14WellTyped: statements of the typed grammar must be accepted and
// must not fail with operand-type errors.
func TestC14WellTyped(t *testing.T) {
	rapid.Check(t, func(rt *rapid.T) {
		st, pairs := genC14Base(rt, false)
		if rapid.IntRange(0, 7).Draw(rt, "raggedLists") == 0 {
			// round 12: an element of a list of texts, compared with a text,
			// over values that split into lists of different lengths (an index
			// past the end of a short list is still a text for the checker:
			// whatever it evaluates to, the comparison must not meet another kind)
			n := rapid.IntRange(2, 9).Draw(rt, "raggedRows")
			pairs = pairs[:0]
			for i := 0; i < n; i++ {
				np := rapid.IntRange(1, 4).Draw(rt, "raggedParts")
				parts := make([]string, np)
				for j := range parts {
					parts[j] = rapid.SampledFrom([]string{"a", "b", "", "7"}).Draw(rt, "raggedPart")
				}
				pairs = append(pairs, lib.Pair{K: fmt.Sprintf("k%d", i), V: strings.Join(parts, ",")})
			}
			idx := int64(rapid.IntRange(0, 3).Draw(rt, "raggedIndex"))
			elem := func() *lib.Node { return lib.Index(lib.Call("split", lib.Value(), lib.Str(",")), idx) }
			op := rapid.SampledFrom([]string{"=", "!=", "<", ">="}).Draw(rt, "raggedOp")
			st = &lib.Stmt{Kind: "select", Fields: []lib.SelField{{E: lib.Key()}, {E: elem()}},
				Where: lib.Bin(op, elem(), lib.Str(rapid.SampledFrom([]string{"a", "b", ""}).Draw(rt, "raggedLit")))}
		}
		c := &c14Case{Stmt: st, Pairs: pairs}
		lib.Journal("C14", "c14", c)
		msg, nt, labels := checkC14(c)
		labels = append(labels, "well-typed", "stmt="+st.Kind)
		lib.Stats.Case(nt, "ok|"+c.Query+fmt.Sprint(pairs), labels, func() any { return map[string]any{"well_typed": c.Query} })
		if msg != "" {
			fail(rt, "C14", "c14", msg, c)
		}
	})
}

// TestC14Mutants: one static fault at a generated position must be rejected
// with zero storage calls.
func TestC14Mutants(t *testing.T) {
	rapid.Check(t, func(rt *rapid.T) {
		// half of the hosts use the wider language (JSON access, substr,
		// distances, ...): a fault must be found below those too
		st, pairs := genC14Base(rt, rapid.Bool().Draw(rt, "exoticHost"))
		mut, fault := mutateStmt(rt, st)
		if mut == nil {
			lib.Stats.Label("no-mutable-position")
			return
		}
		c := &c14Case{Stmt: mut, Pairs: pairs, Mutant: true, Fault: fault}
		lib.Journal("C14", "c14", c)
		msg, _, labels := checkC14(c)
		parts := strings.SplitN(fault, "@", 2)
		labels = append(labels, "fault="+parts[0], "position="+parts[1], "stmt="+st.Kind)
		deep := !(strings.HasSuffix(parts[1], "-root") || parts[1] == "select-field" || parts[1] == "put-operand" || parts[1] == "remove-operand")
		lib.Stats.Case(deep, "mut|"+c.Query, labels, func() any { return map[string]any{"mutant": c.Query, "fault": fault} })
		if msg != "" {
			fail(rt, "C14", "c14", msg, c)
		}
	})
}

// TestC14Forms: families of faults that the generating AST cannot express,
// drawn as text - the fault sits in a later subscript of a cascade, an
// aggregate function is reached where none may stand (inside the argument of
// another aggregate, through GROUP BY, in WHERE / DELETE / PUT / REMOVE;
// directly, below scalar calls or through a chain of names), a subscript
// follows an element of a list, a list or JSON value stands beside an
// aggregate. Each must be refused with zero storage calls - and the same text
// with the fault taken out must be accepted, so that no form is refused for a
// reason other than its fault.
func TestC14Forms(t *testing.T) {
	pairs := []lib.Pair{{K: "a", V: `{"a": {"b": ["x", "y"]}}`}, {K: "ab", V: "1,2"}, {K: "b", V: "3"}}
	rapid.Check(t, func(rt *rapid.T) {
		pick := func(label string, xs ...string) string { return rapid.SampledFrom(xs).Draw(rt, label) }
		family := rapid.IntRange(0, 5).Draw(rt, "family")
		if f := os.Getenv("VERIF_C14_FAMILY"); f != "" { // maintenance: one family only
			family = int(f[0] - '0')
		}
		aggr := pick("aggr", "count(1)", "sum(strlen(key))", "max(int(value))", "avg(strlen(value))", "group_concat(key, ',')", "json_arrayagg(key)", "min(strlen(key))")
		// wrappers: 0..2 scalar calls that keep a number or text a number or text
		var wraps [3][]int
		for w := range wraps {
			for i := rapid.IntRange(0, 2).Draw(rt, "wraps"); i > 0; i-- {
				wraps[w] = append(wraps[w], rapid.IntRange(0, 4).Draw(rt, "wrap"))
			}
		}
		wrap := func(w int, x string) string {
			for _, k := range wraps[w] {
				switch k {
				case 0:
					x = "str(" + x + ")"
				case 1:
					x = "strlen(str(" + x + "))"
				case 2:
					x = "join(',', " + x + ", 'z')"
				case 3:
					x = "list(" + x + ", 1)[0]"
				default:
					x = "(strlen(str(" + x + ")) + 1)"
				}
			}
			return x
		}
		ctx := rapid.IntRange(0, 4).Draw(rt, "context")
		flag := rapid.Bool().Draw(rt, "variant")
		grouped := rapid.Bool().Draw(rt, "grouped")
		var build func(faulty bool) string
		var fault string
		switch family {
		case 0:
			fault = "fault-in-later-subscript"
			bad := pick("badSubscript", "key ^= 1", "1 + 'a'", "!1", "key in ('a', 1)", "nosuchfn(1)", "upper()", "1 between 'a' and 2", "strlen(key) & 1")
			depth := rapid.IntRange(2, 4).Draw(rt, "depth")
			at := rapid.IntRange(2, depth).Draw(rt, "faultAt")
			subs := make([]string, depth+1)
			for d := 1; d <= depth; d++ {
				subs[d] = pick("goodSubscript", "'a'", "'b'", "0", "1")
			}
			subs[1] = pick("firstSubscript", "'a'", "'b'") // a JSON object is addressed by member name
			viaName := rapid.Bool().Draw(rt, "cascadeOnName")
			build = func(faulty bool) string {
				e := "json(value)"
				if viaName {
					e = "j" // the JSON value reached through the name of a select field
				}
				for d := 1; d <= depth; d++ {
					if d == at && faulty {
						e += "[" + bad + "]"
					} else {
						e += "[" + subs[d] + "]"
					}
				}
				sel := "select "
				if viaName {
					sel = "select json(value) as j, "
				}
				switch ctx {
				case 0:
					return sel + "key, " + e + " where key ^= 'a'"
				case 1:
					return sel + "key where " + e + " = 'x'"
				case 2:
					if !viaName {
						return "delete where upper(" + e + ") != 'X'"
					}
				}
				return sel + wrap(0, e) + " as x1, key where key ^= 'a' order by key"
			}
		case 1:
			fault = "aggregate-inside-aggregate-argument"
			outer := pick("outer", "sum(%s)", "count(%s)", "max(%s)", "min(%s)", "avg(%s)", "json_arrayagg(%s)", "group_concat(%s, ',')", "quantile(%s, 0.5)")
			chain := rapid.IntRange(0, 2).Draw(rt, "chain")
			alsoOutside := rapid.Bool().Draw(rt, "nameAlsoOutside")
			build = func(faulty bool) string {
				inner := aggr
				if !faulty {
					inner = "strlen(key)"
				}
				var q string
				if flag {
					// through names; the fault-free form keeps the names but
					// groups by them (a plain field beside an aggregate)
					fields := []string{inner + " as c0"}
					names := []string{"c0"}
					for i := 1; i <= chain; i++ {
						nm := fmt.Sprintf("c%d", i)
						fields = append(fields, wrap(0, names[i-1])+" as "+nm)
						names = append(names, nm)
					}
					last := fmt.Sprintf(outer, wrap(1, names[len(names)-1]))
					if alsoOutside {
						// the same name once outside the aggregate, in front of it
						last = "str(" + wrap(2, names[len(names)-1]) + ") + str(" + last + ")"
					}
					fields = append(fields, last)
					q = "select " + strings.Join(fields, ", ") + " where key ^= 'a'"
					if !faulty {
						return q + " group by " + strings.Join(names, ", ")
					}
					if grouped {
						q = strings.Replace(q, "select ", "select key, ", 1) + " group by key"
					}
					return q
				}
				q = "select " + wrap(0, fmt.Sprintf(outer, wrap(1, inner))) + " where key ^= 'a'"
				if grouped {
					q = strings.Replace(q, "select ", "select key, ", 1) + " group by key"
				}
				return q
			}
		case 2:
			fault = "aggregate-reached-through-group-by"
			build = func(faulty bool) string {
				def := wrap(0, aggr)
				if !faulty {
					def = wrap(0, "strlen(key)")
				}
				switch ctx % 3 {
				case 0:
					return "select " + def + " as c, count(1) where key ^= 'a' group by c"
				case 1:
					return "select " + def + " as c, " + wrap(1, "c") + " as d, count(1) where key ^= 'a' group by c, d"
				}
				return "select " + def + ", key, count(1) where key ^= 'a' group by key, " + def
			}
		case 3:
			fault = "aggregate-outside-select-fields"
			build = func(faulty bool) string {
				a := wrap(0, aggr)
				if !faulty {
					a = wrap(0, "strlen('abc')")
				}
				switch ctx {
				case 0:
					return "select * where str(" + a + ") != 'q' & key ^= 'a'"
				case 1:
					return "delete where key ^= 'a' & !(str(" + a + ") = 'q')"
				case 2:
					return "put ('k9', " + a + ")"
				case 3:
					return "remove 'k9', " + a
				}
				if !faulty {
					return "select strlen(key) as c, key where str(" + wrap(1, "c") + ") != 'q'"
				}
				return "select " + aggr + " as c, key where str(" + wrap(1, "c") + ") != 'q' group by key"
			}
		case 4:
			fault = "subscript-behind-list-element"
			l := pick("list", "int_list(1, 2)", "split('akb', 'k')", "list('a', 'b')", "float_list(1.5, 2.5)", "split('1,2', ',')", "list('k', 'v')")
			i1, j1 := pick("i", "0", "1"), pick("j", "0", "'x'", "1")
			build = func(faulty bool) string {
				e := l + "[" + i1 + "]"
				if faulty {
					e += "[" + j1 + "]"
				}
				switch ctx % 3 {
				case 0:
					return "select " + wrap(0, e) + " where key ^= 'a'"
				case 1:
					return "select key where " + e + " = 'x'"
				}
				return "put ('k9', " + e + ")"
			}
		default:
			fault = "untyped-field-beside-aggregate"
			v := pick("value", "split(value, ',')", "json(value)", "list(1, 2)", "int_list(strlen(key))", "json('{}')")
			plain := pick("plainField", "upper(value)", "nobody", "`no body`", "strlen(key) > 1", "1.5")
			build = func(faulty bool) string {
				x := v
				if !faulty {
					// what may stand beside an aggregate: a text, a number, a
					// Boolean - and a name nobody defines, which stands for its
					// own text
					x = plain
				}
				if flag {
					return "select " + x + " as l0, l0 as l, key, " + aggr + " where key ^= 'a' group by key, key, key"
				}
				return "select " + x + " as l, " + aggr + " where key ^= 'a' group by key"
			}
		}
		q, control := build(true), build(false)
		c := &c14Case{Raw: q, Mutant: true, Fault: fault, Pairs: pairs}
		lib.Journal("C14", "c14", c)
		msg, _, labels := checkC14(c)
		labels = append(labels, "form="+fault)
		// the control: the same text without the fault is accepted
		if cb := lib.Build(control, lib.NewInstr(lib.NewStore(pairs)), lib.Cfg{Mode: "row", Batch: 32, Cache: true}); cb.BuildErr != nil {
			labels = append(labels, "form-control-refused")
			if os.Getenv("VERIF_C14_CONTROLS") != "" {
				fmt.Printf("CONTROL REFUSED: %q (%v) for %q\n", control, cb.BuildErr, q)
			} else if msg == "" {
				// the forms are built so that only the fault is wrong with them
				// (every control is accepted on the tree the leg was written for)
				msg = fmt.Sprintf("statement %q is well-typed by the documented rules (it is %q with the fault %s taken out) but is refused: %v", control, q, fault, cb.BuildErr)
				c = &c14Case{Raw: control, Pairs: pairs}
			}
		} else {
			labels = append(labels, "form-control-accepted")
		}
		// (a form whose control is refused counts as trivial: its refusal proves nothing)
		lib.Stats.Case(labels[len(labels)-1] == "form-control-accepted", "form|"+q, labels, func() any {
			return map[string]any{"mutant": q, "fault": fault, "accepted_without_the_fault": control}
		})
		if msg != "" {
			fail(rt, "C14", "c14", msg, c)
		}
	})
}

// TestC14Positions: every fault of the catalogue at every position of a set
// of fixed skeleton statements (deterministic; guarantees that each
// fault x position cell is exercised).
func TestC14Positions(t *testing.T) {
	lib.Stats.Exhaustive = true
	pairs := []lib.Pair{{K: "a", V: "1"}, {K: "b", V: "2"}}
	tInt := func() *lib.Node { return lib.Call("strlen", lib.Key()) }
	tBool := func() *lib.Node { return lib.Call("is_int", lib.Value()) }
	type skel struct {
		name string
		mk   func(hole *lib.Node) *lib.Stmt
		ty   lib.Ty
	}
	sel := func(fields []lib.SelField, w *lib.Node) *lib.Stmt {
		return &lib.Stmt{Kind: "select", Fields: fields, Where: w, Star: fields == nil}
	}
	ok := func() *lib.Node { return lib.Bin("=", lib.Key(), lib.Str("a")) }
	var skels []skel
	for _, lop := range []string{"&", "|", "and", "or"} {
		lop := lop
		skels = append(skels,
			skel{"where-" + lop + "-left", func(h *lib.Node) *lib.Stmt { return sel(nil, lib.Bin(lop, h, tBool())) }, lib.TyBool},
			skel{"where-" + lop + "-right", func(h *lib.Node) *lib.Stmt { return sel(nil, lib.Bin(lop, tBool(), h)) }, lib.TyBool},
		)
	}
	skels = append(skels,
		skel{"where-root", func(h *lib.Node) *lib.Stmt { return sel(nil, h) }, lib.TyBool},
		skel{"under-not", func(h *lib.Node) *lib.Stmt { return sel(nil, lib.Not(h)) }, lib.TyBool},
		skel{"under-not-nested", func(h *lib.Node) *lib.Stmt { return sel(nil, lib.Bin("&", ok(), lib.Not(lib.Bin("|", h, tBool())))) }, lib.TyBool},
		skel{"compare-left-int", func(h *lib.Node) *lib.Stmt { return sel(nil, lib.Bin(">", h, lib.Int(1))) }, lib.TyInt},
		skel{"compare-right-text", func(h *lib.Node) *lib.Stmt { return sel(nil, lib.Bin("=", lib.Value(), h)) }, lib.TyText},
		skel{"arith-operand", func(h *lib.Node) *lib.Stmt { return sel(nil, lib.Bin("=", lib.Bin("+", tInt(), h), lib.Int(3))) }, lib.TyInt},
		skel{"call-argument-text", func(h *lib.Node) *lib.Stmt { return sel(nil, lib.Bin("=", lib.Call("lower", h), lib.Str("a"))) }, lib.TyText},
		skel{"call-argument-int", func(h *lib.Node) *lib.Stmt { return sel(nil, lib.Bin("=", lib.Call("str", h), lib.Str("1"))) }, lib.TyInt},
		skel{"vararg-argument", func(h *lib.Node) *lib.Stmt {
			return sel(nil, lib.Bin("=", lib.Call("join", lib.Str(","), lib.Key(), h), lib.Str("a")))
		}, lib.TyText},
		skel{"in-item-text", func(h *lib.Node) *lib.Stmt { return sel(nil, lib.In(lib.Value(), lib.Str("x"), h)) }, lib.TyText},
		skel{"in-item-int", func(h *lib.Node) *lib.Stmt { return sel(nil, lib.In(tInt(), lib.Int(1), h)) }, lib.TyInt},
		skel{"in-left", func(h *lib.Node) *lib.Stmt { return sel(nil, lib.In(h, lib.Str("x"), lib.Str("y"))) }, lib.TyText},
		skel{"between-lower", func(h *lib.Node) *lib.Stmt { return sel(nil, lib.Between(tInt(), h, lib.Int(9))) }, lib.TyInt},
		skel{"between-upper", func(h *lib.Node) *lib.Stmt { return sel(nil, lib.Between(lib.Value(), lib.Str("a"), h)) }, lib.TyText},
		skel{"index-base-argument", func(h *lib.Node) *lib.Stmt {
			return sel(nil, lib.Bin("=", lib.Index(lib.Call("split", h, lib.Str(",")), 0), lib.Str("a")))
		}, lib.TyText},
		skel{"json-base-argument", func(h *lib.Node) *lib.Stmt {
			return sel(nil, lib.Bin("=", lib.Field(lib.Call("json", h), "a"), lib.Str("x")))
		}, lib.TyText},
		skel{"json-cascade-base-argument", func(h *lib.Node) *lib.Stmt {
			return sel(nil, lib.Bin("=", lib.Field(lib.Field(lib.Call("json", h), "a"), "b"), lib.Str("x")))
		}, lib.TyText},
		skel{"json-cascade-index-base-argument", func(h *lib.Node) *lib.Stmt {
			return sel(nil, lib.Bin("=", lib.Index(lib.Field(lib.Field(lib.Call("json", lib.Call("upper", h)), "o"), "arr"), 1), lib.Str("x")))
		}, lib.TyText},
		skel{"json-cascade-select-field", func(h *lib.Node) *lib.Stmt {
			return sel([]lib.SelField{{E: lib.Key()}, {E: lib.Field(lib.Field(lib.Call("json", h), "a"), "b")}}, ok())
		}, lib.TyText},
		skel{"named-field-under-json-cascade", func(h *lib.Node) *lib.Stmt {
			return sel([]lib.SelField{{E: h, Alias: "t1"}}, lib.Bin("=", lib.Field(lib.Field(lib.Call("json", lib.Ref("t1", lib.TyText)), "a"), "b"), lib.Str("x")))
		}, lib.TyText},
		skel{"put-value-json-cascade", func(h *lib.Node) *lib.Stmt {
			return &lib.Stmt{Kind: "put", Pairs: [][2]*lib.Node{{lib.Str("k"), lib.Field(lib.Field(lib.Call("json", h), "a"), "b")}}}
		}, lib.TyText},
		skel{"remove-key-json-cascade", func(h *lib.Node) *lib.Stmt {
			return &lib.Stmt{Kind: "remove", Keys: []*lib.Node{lib.Field(lib.Field(lib.Call("json", h), "a"), "b")}}
		}, lib.TyText},
		skel{"select-field", func(h *lib.Node) *lib.Stmt { return sel([]lib.SelField{{E: lib.Key()}, {E: h}}, ok()) }, lib.TyText},
		skel{"select-field-bool", func(h *lib.Node) *lib.Stmt { return sel([]lib.SelField{{E: h, Alias: "b1"}}, ok()) }, lib.TyBool},
		skel{"select-field-argument", func(h *lib.Node) *lib.Stmt { return sel([]lib.SelField{{E: lib.Call("strlen", h)}}, ok()) }, lib.TyText},
		skel{"named-field-used-in-where", func(h *lib.Node) *lib.Stmt {
			return sel([]lib.SelField{{E: h, Alias: "n1"}}, lib.Bin(">", lib.Ref("n1", lib.TyInt), lib.Int(0)))
		}, lib.TyInt},
		skel{"order-referenced-field", func(h *lib.Node) *lib.Stmt {
			s := sel([]lib.SelField{{E: lib.Key()}, {E: h, Alias: "t1"}}, ok())
			s.Order = []lib.OrderKey{{Name: "t1"}}
			return s
		}, lib.TyText},
		skel{"group-referenced-field", func(h *lib.Node) *lib.Stmt {
			s := sel([]lib.SelField{{E: h, Alias: "g1"}, {E: lib.Call("count", lib.Int(1))}}, ok())
			s.Group = []string{"g1"}
			return s
		}, lib.TyText},
		skel{"aggregate-argument", func(h *lib.Node) *lib.Stmt { return sel([]lib.SelField{{E: lib.Call("sum", h)}}, ok()) }, lib.TyInt},
		skel{"arith-around-aggregate", func(h *lib.Node) *lib.Stmt {
			return sel([]lib.SelField{{E: lib.Bin("+", lib.Call("count", lib.Int(1)), h)}}, ok())
		}, lib.TyInt},
		skel{"delete-where", func(h *lib.Node) *lib.Stmt { return &lib.Stmt{Kind: "delete", Where: lib.Bin("&", ok(), h)} }, lib.TyBool},
		skel{"put-key", func(h *lib.Node) *lib.Stmt { return &lib.Stmt{Kind: "put", Pairs: [][2]*lib.Node{{h, lib.Str("v")}}} }, lib.TyText},
		skel{"put-value", func(h *lib.Node) *lib.Stmt {
			return &lib.Stmt{Kind: "put", Pairs: [][2]*lib.Node{{lib.Str("k"), lib.Str("v")}, {lib.Str("k2"), h}}}
		}, lib.TyText},
		skel{"remove-key", func(h *lib.Node) *lib.Stmt { return &lib.Stmt{Kind: "remove", Keys: []*lib.Node{lib.Str("k"), h}} }, lib.TyText},
	)
	idx := 0
	for _, sk := range skels {
		// the skeleton itself (with a well-typed hole) must be accepted
		var good *lib.Node
		var faults []c14Fault
		switch sk.ty {
		case lib.TyInt:
			good, faults = lib.Bin("+", lib.Int(1), lib.Int(2)), c14IntFaults
		case lib.TyText:
			good, faults = lib.Call("lower", lib.Str("A")), c14TextFaults
		default:
			good, faults = lib.Bin("=", lib.Value(), lib.Str("1")), c14BoolFaults
		}
		idx++
		if lib.Mine(idx) {
			c := &c14Case{Stmt: sk.mk(good), Pairs: pairs}
			msg, _, _ := checkC14(c)
			lib.Stats.EnumCase(true, []string{"skeleton-accepted"}, func() any { return map[string]any{"well_typed": c.Query} })
			if msg != "" {
				fail(t, "C14", "c14", msg, c)
			}
		}
		for _, f := range faults {
			idx++
			if !lib.Mine(idx) {
				continue
			}
			n := f.Make()
			if strings.HasPrefix(sk.name, "put-") || strings.HasPrefix(sk.name, "remove-") {
				n.Walk(func(x *lib.Node) {
					if x.K == "key" {
						*x = *lib.Str("k")
					}
				})
			}
			c := &c14Case{Stmt: sk.mk(n), Pairs: pairs, Mutant: true, Fault: f.Name + "@" + sk.name}
			lib.Journal("C14", "c14", c)
			msg, _, _ := checkC14(c)
			lib.Stats.EnumCase(true, []string{"fault=" + f.Name, "position=" + sk.name}, func() any { return map[string]any{"mutant": c.Query, "fault": c.Fault} })
			if msg != "" {
				fail(t, "C14", "c14", msg, c)
			}
		}
	}
	// statement-form restrictions
	forms := []*c14Case{
		{Stmt: &lib.Stmt{Kind: "put", Pairs: [][2]*lib.Node{{lib.Str("k"), lib.Value()}}}, Mutant: true, Fault: "value-inside-put"},
		{Stmt: &lib.Stmt{Kind: "put", Pairs: [][2]*lib.Node{{lib.Str("k"), lib.Call("upper", lib.Bin("+", lib.Str("a"), lib.Value()))}}}, Mutant: true, Fault: "value-inside-put-nested"},
		{Stmt: &lib.Stmt{Kind: "put", Pairs: [][2]*lib.Node{{lib.Value(), lib.Str("v")}}}, Mutant: true, Fault: "value-as-put-key"},
		{Stmt: &lib.Stmt{Kind: "remove", Keys: []*lib.Node{lib.Key()}}, Mutant: true, Fault: "key-inside-remove"},
		{Stmt: &lib.Stmt{Kind: "remove", Keys: []*lib.Node{lib.Str("a"), lib.Call("lower", lib.Value())}}, Mutant: true, Fault: "value-inside-remove-nested"},
		{Stmt: &lib.Stmt{Kind: "remove", Keys: []*lib.Node{lib.Bin("=", lib.Int(1), lib.Int(1))}}, Mutant: true, Fault: "boolean-remove-key"},
		{Stmt: &lib.Stmt{Kind: "put", Pairs: [][2]*lib.Node{{lib.Str("k"), lib.Call("is_int", lib.Str("1"))}}}, Mutant: true, Fault: "boolean-put-value"},
		{Stmt: &lib.Stmt{Kind: "select", Star: true, Where: lib.Key()}, Mutant: true, Fault: "non-boolean-where"},
		{Stmt: &lib.Stmt{Kind: "select", Star: true, Where: lib.Bin("+", lib.Int(1), lib.Int(2))}, Mutant: true, Fault: "non-boolean-where"},
		{Stmt: &lib.Stmt{Kind: "select", Star: true, Where: lib.Call("upper", lib.Key())}, Mutant: true, Fault: "non-boolean-where"},
		{Stmt: &lib.Stmt{Kind: "delete", Where: lib.Call("strlen", lib.Key())}, Mutant: true, Fault: "non-boolean-where"},
		{Stmt: &lib.Stmt{Kind: "select", Star: true, Where: lib.Call("nosuchfn", lib.Key())}, Mutant: true, Fault: "unknown-function"},
		// aggregate functions exist in select fields only: anywhere else they
		// are unknown functions, also when reached through a field name
		{Stmt: &lib.Stmt{Kind: "select", Star: true, Where: lib.Bin(">", lib.Call("count", lib.Int(1)), lib.Int(0))}, Mutant: true, Fault: "aggregate-in-where"},
		{Stmt: &lib.Stmt{Kind: "delete", Where: lib.Bin(">", lib.Call("sum", lib.Call("strlen", lib.Key())), lib.Int(0))}, Mutant: true, Fault: "aggregate-in-delete-where"},
		{Stmt: &lib.Stmt{Kind: "select", Fields: []lib.SelField{{E: lib.Call("count", lib.Int(1)), Alias: "c"}}, Where: lib.Bin(">", lib.Ref("c", lib.TyInt), lib.Int(1))}, Mutant: true, Fault: "named-aggregate-in-where"},
		{Stmt: &lib.Stmt{Kind: "select", Fields: []lib.SelField{{E: lib.Key(), Alias: "g1"}, {E: lib.Call("sum", lib.Int(1)), Alias: "s"}}, Where: lib.Not(lib.Bin(">", lib.Ref("s", lib.TyInt), lib.Int(1))), Group: []string{"g1"}}, Mutant: true, Fault: "named-aggregate-under-!-in-where"},
		{Stmt: &lib.Stmt{Kind: "select", Fields: []lib.SelField{{E: lib.Key()}, {E: lib.Call("max", lib.Call("strlen", lib.Value())), Alias: "m"}}, Where: lib.Bin("&", lib.In(lib.Key(), lib.Str("a"), lib.Str("b")), lib.Between(lib.Ref("m", lib.TyInt), lib.Int(1), lib.Int(5))), Group: []string{"key"}}, Mutant: true, Fault: "named-aggregate-in-between-in-where"},
		{Stmt: &lib.Stmt{Kind: "select", Fields: []lib.SelField{{E: lib.Call("count", lib.Int(1)), Alias: "c"}}, Where: lib.Bin("=", lib.Call("str", lib.Bin("+", lib.Ref("c", lib.TyInt), lib.Int(1))), lib.Str("2"))}, Mutant: true, Fault: "named-aggregate-in-argument-in-where"},
		{Stmt: &lib.Stmt{Kind: "put", Pairs: [][2]*lib.Node{{lib.Str("k"), lib.Call("str", lib.Call("count", lib.Int(1)))}}}, Mutant: true, Fault: "aggregate-in-put"},
	}
	// a fault in the second subscript of x[..][..], the key keyword in the
	// key of a put pair, aggregates inside the arguments of aggregates
	for _, raw := range [][2]string{
		{"select key where json(value)['a'][key ^= 1] = 'x'", "fault-in-second-subscript"},
		{"select key, json(value)['a'][1 + 'a'] where key ^= 'a'", "fault-in-second-subscript"},
		{"select key where json(value)['a'][!1] = 'x'", "fault-in-second-subscript"},
		{"delete where json(value)['a'][key in ('a', 1)] = 'x'", "fault-in-second-subscript"},
		{"select key where json(value)['a']['b'][key ^= 1] = 'x'", "fault-in-third-subscript"},
		{"put ('k', json('{\"a\":{\"b\":\"c\"}}')['a'][value])", "value-in-second-subscript-of-put"},
		{"remove json('{\"a\":{\"b\":\"c\"}}')['a'][key]", "key-in-second-subscript-of-remove"},
		{"put (key, 'v')", "key-as-put-key"},
		{"put ('k1', 'v1'), (upper(key), 'v')", "key-inside-put-key"},
		{"put ('k1', 'v1'), ('k' + key, key)", "key-inside-put-key"},
		{"select count(1) as c, sum(c) where key ^= 'a'", "aggregate-inside-aggregate-argument"},
		{"select sum(strlen(str(count(1)))) where key ^= 'a'", "aggregate-inside-aggregate-argument"},
		{"select str(sum(count(1))) where key ^= 'a'", "aggregate-inside-aggregate-argument"},
		{"select key, sum(int(str(count(1)))) where key ^= 'a' group by key", "aggregate-inside-aggregate-argument"},
		{"select count(join(',', count(1))) where key ^= 'a'", "aggregate-inside-aggregate-argument"},
		{"select count(1) as c, key where key ^= 'a' group by c", "aggregate-reached-through-group-by"},
		{"select str(count(1)), key where key ^= 'a' group by str(count(1))", "aggregate-reached-through-group-by"},
		{"select count(1) as c, c + 1 as d, key where key ^= 'a' group by d", "aggregate-reached-through-group-by"},
		{"select int_list(1,2)[0]['x'] where key = 'a'", "subscript-behind-list-element"},
		{"select split(key, 'k')[1][0] where key ^= 'a'", "subscript-behind-list-element"},
		{"put ('k9', int_list(1,2)[0]['x'])", "subscript-behind-list-element"},
	} {
		forms = append(forms, &c14Case{Raw: raw[0], Mutant: true, Fault: raw[1]})
	}
	// the accepting side: well-typed shapes that the checker must not refuse
	for _, raw := range []string{
		"select * where key = 'a' & true",
		"select * where false or key = 'a'",
		"delete where key = 'a' & true",
		"select * where !(key = 'a') = false",
		"select * where is_int(value) != !(key = 'a')",
		"select key, true & is_int(value) where true | key = 'zz'",
		"select key, json(value)['a']['b'], json(value)['l'][0][1] where key ^= 'a'",
		"put ('k1', upper(key)), ('k' + 'x', key + 'y')",
		"select str(count(1)), sum(strlen(str(strlen(key)))) where key ^= 'a'",
		"select key, is_int(value) as b where b",
		"select key, (key = 'a') as b where b",
		"select strlen(key) as g, count(1) where key ^= 'a' group by g",
		"select list('007', '1')[0], list(value, key)[1] where key ^= 'a'",
	} {
		forms = append(forms, &c14Case{Raw: raw})
	}
	for _, c := range forms {
		idx++
		if !lib.Mine(idx) {
			continue
		}
		c.Pairs = pairs
		msg, _, _ := checkC14(c)
		lib.Stats.EnumCase(true, []string{"fault=" + c.Fault, "position=statement-form"}, func() any { return map[string]any{"mutant": c.Query, "fault": c.Fault} })
		if msg != "" {
			fail(t, "C14", "c14", msg, c)
		}
	}
}

// ---- operator x operand-type matrix -------------------------------------------

type c14MatrixCase struct {
	E     *lib.Node `json:"e"`
	Where bool      `json:"where"` // place E as the WHERE clause instead of a select field
	Aggr  bool      `json:"aggr"`  // place E as a select field next to an aggregate, grouped by key
	Query string    `json:"query"`
}

func init() {
	registerReplay("c14matrix", func(c *c14MatrixCase) string { m, _ := checkC14Matrix(c); return m })
}

var c14MatrixPairs = []lib.Pair{{K: "a", V: "1"}, {K: "ab", V: "2"}, {K: "b", V: "3.5"}}

// checkC14Matrix: whatever the typing rules say about `X op Y`, the verdict
// must come when the plan is built. Rejected: no storage call before the
// rejection. Accepted: execution over numeric-text values never fails with an
// operand-type error.
func checkC14Matrix(c *c14MatrixCase) (msg string, accepted bool) {
	st := &lib.Stmt{Kind: "select", Fields: []lib.SelField{{E: lib.Key()}, {E: c.E}}, Where: lib.Bin("!=", lib.Key(), lib.Str(""))}
	if c.Where {
		st = &lib.Stmt{Kind: "select", Star: true, Where: c.E}
	}
	if c.Aggr {
		// the value of such a field is kept once per group: whether its type
		// can be kept is known when the plan is built
		st = &lib.Stmt{Kind: "select", Fields: []lib.SelField{{E: c.E, Alias: "e1"}, {E: lib.Call("count", lib.Int(1))}}, Where: lib.Bin("!=", lib.Key(), lib.Str("")), Group: []string{"key"}}
	}
	q := st.Render()
	c.Query = q
	for _, cfg := range []lib.Cfg{{Mode: "row", Batch: 32, Cache: true}, {Mode: "batch", Batch: 2, Cache: true}} {
		in := lib.NewInstr(lib.NewStore(c14MatrixPairs))
		res := lib.Build(q, in, cfg)
		if res.Panic != "" {
			return fmt.Sprintf("planning %q panicked: %s", q, res.Panic), true
		}
		if res.BuildErr != nil {
			if n := len(in.Calls()); n != 0 {
				return fmt.Sprintf("statement %q is rejected (%v) but only after %d storage calls: %v", q, res.BuildErr, n, in.Calls()), false
			}
			continue
		}
		accepted = true
		lib.Drain(res, cfg, 64)
		if res.Panic != "" {
			return fmt.Sprintf("executing %q [%s] panicked: %s", q, cfg, res.Panic), true
		}
		if res.ExecErr != nil && (isOperandTypeError(res.ExecErr) || strings.Contains(res.ExecErr.Error(), "result type not support")) {
			return fmt.Sprintf("statement %q is accepted when the plan is built but fails at run time [%s] with an operand-type error: %v (storage calls before the failure: %d)", q, cfg, res.ExecErr, len(in.Calls())), true
		}
	}
	return "", accepted
}

// TestC14Matrix: every operator over every pair of operand forms of every
// static type, as a select field and (when it can be Boolean) as the WHERE.
func TestC14Matrix(t *testing.T) {
	lib.Stats.Exhaustive = true
	type operand struct {
		ty string
		mk func() *lib.Node
	}
	ops := []operand{
		{"text", func() *lib.Node { return lib.Str("a") }},
		{"text", func() *lib.Node { return lib.Key() }},
		{"text", func() *lib.Node { return lib.Value() }},
		{"text", func() *lib.Node { return lib.Call("upper", lib.Key()) }},
		{"int", func() *lib.Node { return lib.Int(1) }},
		{"int", func() *lib.Node { return lib.Call("strlen", lib.Key()) }},
		{"int", func() *lib.Node { return lib.Bin("+", lib.Int(1), lib.Int(2)) }},
		{"float", func() *lib.Node { return lib.Float("1.5") }},
		{"float", func() *lib.Node { return lib.Call("float", lib.Value()) }},
		{"bool", func() *lib.Node { return lib.Bool(true) }},
		{"bool", func() *lib.Node { return lib.Bin("=", lib.Key(), lib.Str("a")) }},
		{"bool", func() *lib.Node { return lib.Call("is_int", lib.Value()) }},
		{"bool", func() *lib.Node { return lib.Not(lib.Bin("^=", lib.Key(), lib.Str("a"))) }},
		{"list", func() *lib.Node { return lib.Call("split", lib.Value(), lib.Str(",")) }},
		{"list", func() *lib.Node { return lib.Call("list", lib.Int(1), lib.Int(2)) }},
		{"json", func() *lib.Node { return lib.Call("json", lib.Str(`{"a": 1}`)) }},
		// an element of a list of texts: statically a text (the values of the
		// matrix store read as numbers, so a wrongly accepted arithmetic on it
		// would even "work" - until a value is not a number)
		{"text", func() *lib.Node { return lib.Index(lib.Call("split", lib.Value(), lib.Str(",")), 0) }},
	}
	binops := []string{"=", "!=", "<", "<=", ">", ">=", "^=", "~=", "+", "-", "*", "/", "&", "|", "and", "or"}
	idx := 0
	emit := func(e *lib.Node, label string) {
		for _, place := range []string{"field", "where", "beside-aggregate"} {
			idx++
			if !lib.Mine(idx) {
				continue
			}
			c := &c14MatrixCase{E: e.Clone(), Where: place == "where", Aggr: place == "beside-aggregate"}
			lib.Journal("C14", "c14matrix", c)
			msg, acc := checkC14Matrix(c)
			verdict := "rejected"
			if acc {
				verdict = "accepted"
			}
			lib.Stats.EnumCase(true, []string{"matrix", "matrix-" + verdict, "matrix-" + label}, func() any { return map[string]any{"matrix": c.Query, "verdict": verdict} })
			if msg != "" {
				if os.Getenv("VERIF_MATRIX_ALL") != "" {
					fmt.Println("MATRIX:", msg)
					continue
				}
				fail(t, "C14", "c14matrix", msg, c)
			}
		}
	}
	for _, l := range ops {
		for _, r := range ops {
			for _, op := range binops {
				emit(lib.Bin(op, l.mk(), r.mk()), l.ty+op+r.ty)
			}
			// IN over a literal list, over a list value; BETWEEN
			emit(lib.In(l.mk(), r.mk(), r.mk()), l.ty+" in ("+r.ty+")")
			if r.ty == "list" {
				emit(lib.InList(l.mk(), r.mk()), l.ty+" in list")
			}
			for _, h := range ops {
				if h.ty == r.ty || (h.ty != "list" && r.ty != "list" && h.ty != "json" && r.ty != "json" && (idx%3 == 0)) {
					emit(lib.Between(l.mk(), r.mk(), h.mk()), l.ty+" between "+r.ty+" and "+h.ty)
				}
			}
		}
		emit(lib.Not(l.mk()), "!"+l.ty)
		// the operand forms themselves (a bare list beside an aggregate)
		emit(l.mk(), "bare "+l.ty)
	}
}
