package checks

import (
	"fmt"
	"strings"
	"testing"

	"pgregory.net/rapid"

	"verif/lib"
)

// C07 — ORDER BY returns a sorted permutation of the unordered result.

type c07Case struct {
	Stmt  *lib.Stmt  `json:"stmt"`
	Pairs []lib.Pair `json:"pairs"`
	Batch int        `json:"batch"`
	Query string     `json:"query"`
}

func init() { registerReplay("c07", func(c *c07Case) string { m, _, _ := checkC07(c); return m }) }

// orderColumn resolves an ORDER BY name to (column index, declared type).
func orderColumn(s *lib.Stmt, name string) (int, lib.Ty, bool) {
	if s.Star {
		switch name {
		case "key":
			return 0, lib.TyText, true
		case "value":
			return 1, lib.TyText, true
		}
		return 0, 0, false
	}
	for i, f := range s.Fields {
		n := f.Alias
		if n == "" && (f.E.K == "key" || f.E.K == "value") {
			n = f.E.K
		}
		if n == name {
			return i, f.E.T, true
		}
	}
	return 0, 0, false
}

// isNaNValue: a float NaN, or the text NaN of a group column.
func isNaNValue(v any) bool {
	switch x := v.(type) {
	case float64:
		return x != x
	case string:
		return strings.EqualFold(x, "nan") || strings.EqualFold(x, "+nan") || strings.EqualFold(x, "-nan")
	}
	return false
}

func cmpByType(ty lib.Ty, a, b any) (int, bool) {
	switch ty {
	case lib.TyText:
		return lib.TextCmp(a, b)
	case lib.TyInt, lib.TyFloat:
		return lib.NumCmp(a, b)
	case lib.TyBool:
		return lib.BoolCmp(a, b)
	}
	return 0, false
}

func checkC07(c *c07Case) (msg string, nontrivial bool, labels []string) {
	q := c.Stmt.Render()
	c.Query = q
	un := c.Stmt.Clone()
	un.Order = nil
	uq := un.Render()
	type col struct {
		idx  int
		ty   lib.Ty
		desc bool
	}
	var cols []col
	for _, o := range c.Stmt.Order {
		i, ty, ok := orderColumn(c.Stmt, o.Name)
		if !ok {
			return fmt.Sprintf("harness bug: order name %q not found", o.Name), false, nil
		}
		cols = append(cols, col{i, ty, o.Dir == "desc"})
	}
	// lexicographic comparison of two rows under the requested keys
	cmpRows := func(a, b []any) (int, error) {
		for _, cl := range cols {
			if cl.idx >= len(a) || cl.idx >= len(b) {
				return 0, fmt.Errorf("row has no column %d", cl.idx)
			}
			r, ok := cmpByType(cl.ty, a[cl.idx], b[cl.idx])
			if !ok {
				return 0, fmt.Errorf("column %d values %s and %s are not comparable as %s", cl.idx, lib.Show(a[cl.idx]), lib.Show(b[cl.idx]), cl.ty)
			}
			if cl.desc {
				r = -r
			}
			if r != 0 {
				return r, nil
			}
		}
		return 0, nil
	}
	// reference for the un-ordered statement (ties the metamorphic base to C01/C09)
	ref, rerr := lib.RefSelect(un, c.Pairs)
	for _, mode := range []string{"row", "batch"} {
		cfg := lib.Cfg{Mode: mode, Batch: c.Batch, Cache: true}
		u := lib.Run(uq, lib.NewStore(c.Pairs), len(c.Pairs), cfg)
		if u.BuildErr != nil {
			return "", false, []string{"rejected-by-engine"}
		}
		if u.Failed() {
			return "", false, []string{"unordered-statement-fails"}
		}
		if rerr == nil {
			groupCol := map[int]bool{}
			if un.IsAggregate() {
				for i, f := range un.Fields {
					if !f.E.HasAggr() {
						groupCol[i] = true
					}
				}
			}
			want := make([][]any, len(ref))
			for i, r := range ref {
				want[i] = r.Cols
			}
			if !sameMultisetRef(want, u.Rows, groupCol) || len(want) != len(u.Rows) {
				return fmt.Sprintf("un-ordered statement %q over %v [%s]:\n  reference %s\n  engine    %s", uq, c.Pairs, cfg, showRefRows(want), lib.ShowRows(u.Rows)), false, labels
			}
		}
		o := lib.Run(q, lib.NewStore(c.Pairs), len(c.Pairs), cfg)
		if o.BuildErr != nil {
			return fmt.Sprintf("statement %q is accepted without its ORDER BY clause but refused with it: %v", q, o.BuildErr), false, labels
		}
		if o.Failed() {
			return fmt.Sprintf("statement %q over %v [%s]: the un-ordered statement returns %d rows, the ordered one: %s", q, c.Pairs, cfg, len(u.Rows), o.Describe()), false, labels
		}
		// (i) permutation
		if !lib.SameMultiset(o.Rows, u.Rows) {
			return fmt.Sprintf("statement %q over %v [%s] is not a permutation of its un-ordered result:\n  un-ordered %s\n  ordered    %s", q, c.Pairs, cfg, lib.ShowRows(u.Rows), lib.ShowRows(o.Rows)), false, labels
		}
		// (ii) every adjacent pair is in non-decreasing order. NaN is not
		// ordered with any number: rows with a NaN order key may stand
		// anywhere, the other rows must be sorted among themselves
		sorted := o.Rows
		if hasNaNKey := func(r []any) bool {
			for _, cl := range cols {
				if cl.idx < len(r) && (cl.ty == lib.TyInt || cl.ty == lib.TyFloat) && isNaNValue(r[cl.idx]) {
					return true
				}
			}
			return false
		}; true {
			sorted = nil
			for _, r := range o.Rows {
				if !hasNaNKey(r) {
					sorted = append(sorted, r)
				}
			}
			if len(sorted) != len(o.Rows) {
				labels = append(labels, "nan-order-key")
			}
		}
		strict, tieFirst := false, false
		for i := 0; i+1 < len(sorted); i++ {
			r, err := cmpRows(sorted[i], sorted[i+1])
			if err != nil {
				return fmt.Sprintf("statement %q [%s]: %v", q, cfg, err), false, labels
			}
			if r > 0 {
				return fmt.Sprintf("statement %q over %v [%s]: rows %d and %d are out of order:\n  %s\n  %s\n  full result %s", q, c.Pairs, cfg, i, i+1, lib.ShowRow(sorted[i]), lib.ShowRow(sorted[i+1]), lib.ShowRows(o.Rows)), false, labels
			}
			if r < 0 {
				strict = true
			}
			if len(cols) > 1 {
				if f, ok := cmpByType(cols[0].ty, sorted[i][cols[0].idx], sorted[i+1][cols[0].idx]); ok && f == 0 {
					tieFirst = true
				}
			}
		}
		// (iii) a lone `order by key asc` leaves the natural order unchanged
		if len(c.Stmt.Order) == 1 && c.Stmt.Order[0].Name == "key" && c.Stmt.Order[0].Dir != "desc" && !c.Stmt.IsAggregate() {
			labels = append(labels, "order-by-key-asc")
			if !lib.EqualRows(o.Rows, u.Rows) {
				return fmt.Sprintf("statement %q [%s]: order by key asc changes the natural key order:\n  without %s\n  with    %s", q, cfg, lib.ShowRows(u.Rows), lib.ShowRows(o.Rows)), false, labels
			}
		}
		if len(o.Rows) >= 3 && strict && (len(cols) == 1 || tieFirst) {
			nontrivial = true
		}
	}
	return "", nontrivial, labels
}

func TestC07(t *testing.T) {
	rapid.Check(t, func(rt *rapid.T) {
		kind := lib.GenKind(rt)
		if rapid.IntRange(0, 3).Draw(rt, "numericStore") == 0 {
			kind = lib.KFloat // integer and float texts mixed: aggregates change kind between groups
		}
		pairs := lib.GenStore(rt, kind, lib.GenStoreSize(rt))
		if kind == lib.KFloat && len(pairs) > 2 && rapid.IntRange(0, 2).Draw(rt, "nanValues") == 0 {
			// float(value) of the text NaN is NaN: not ordered with any number
			for i := rapid.IntRange(1, 3).Draw(rt, "nNaN"); i > 0; i-- {
				pairs[rapid.IntRange(0, len(pairs)-1).Draw(rt, "nanAt")].V = "NaN"
			}
		}
		var st *lib.Stmt
		for try := 0; ; try++ {
			st = lib.GenSelect(rt, kind, pairs, lib.SelOpts{Aliases: true, Aggregate: 1, MinFields: 1, MixedNumeric: true, NameChains: true})
			lib.ForceOrder(rt, st)
			if len(st.Order) > 0 || try > 3 {
				break
			}
		}
		if len(st.Order) == 0 {
			lib.Stats.Label("no-orderable-field")
			return
		}
		c := &c07Case{Stmt: st, Pairs: pairs, Batch: rapid.SampledFrom([]int{2, 3, 32}).Draw(rt, "batch")}
		lib.Journal("C07", "c07", c)
		msg, nt, labels := checkC07(c)
		for _, o := range st.Order {
			_, ty, _ := orderColumn(st, o.Name)
			labels = append(labels, fmt.Sprintf("key-type=%s", ty), "dir="+o.Dir)
		}
		labels = append(labels, fmt.Sprintf("nkeys=%d", len(st.Order)))
		if st.IsAggregate() {
			labels = append(labels, "aggregate")
		}
		lib.Stats.Case(nt, c.Query+"|"+fmt.Sprint(pairs, c.Batch), labels, func() any {
			return map[string]any{"query": c.Query, "pairs": len(pairs), "batch": c.Batch}
		})
		if msg != "" {
			fail(rt, "C07", "c07", msg, c)
		}
	})
}
