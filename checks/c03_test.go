package checks

import (
	"fmt"
	"strings"
	"testing"

	"pgregory.net/rapid"

	"verif/lib"
)

// C03 — row-at-a-time and batch iteration give the same result at any batch
// size.

type c03Case struct {
	Stmt   *lib.Stmt  `json:"stmt"`
	Pairs  []lib.Pair `json:"pairs"`
	Batch  int        `json:"batch"`
	Batch2 int        `json:"batch2"`
	Query  string     `json:"query"`
	// Raw: statement text for shapes outside the generating AST (templates
	// over dynamically typed JSON members); Stmt is nil then
	Raw string `json:"raw,omitempty"`
}

func init() { registerReplay("c03", func(c *c03Case) string { m, _, _ := checkC03(c); return m }) }

func checkC03(c *c03Case) (msg string, nontrivial bool, labels []string) {
	var q string
	var keyIdx []int
	isSelect := true
	if c.Raw != "" {
		q = c.Raw
	} else {
		q = c.Stmt.Render()
		keyIdx = orderKeyIdx(c.Stmt)
		isSelect = c.Stmt.Kind == "select"
	}
	c.Query = q
	var firstRows [][]any
	var firstCfg lib.Cfg
	haveFirst := false
	for bi, bs := range []int{c.Batch, c.Batch2} {
		if bi == 1 && c.Batch2 == c.Batch {
			break
		}
		// row iteration under the same batch-size setting: statements that
		// drive their child in chunks (DELETE, ORDER BY, aggregates) evaluate
		// as far ahead as that setting says in either mode, so "batch completes
		// => row completes" is a statement about one setting
		rowStore := lib.NewStore(c.Pairs)
		rcfg := lib.Cfg{Mode: "row", Batch: bs, Cache: true}
		row := lib.Run(q, rowStore, len(c.Pairs), rcfg)
		if row.BuildErr != nil {
			return "", false, []string{"rejected-by-engine"}
		}
		if row.Panic != "" || row.StepCap {
			return fmt.Sprintf("query %q over %v [%s]: %s", q, c.Pairs, rcfg, row.Describe()), false, labels
		}
		if row.ExecErr == nil {
			// the rows do not depend on the setting
			if !haveFirst {
				firstRows, firstCfg, haveFirst = row.Rows, rcfg, true
			} else if !sameUpToTies(firstRows, row.Rows, keyIdx) {
				return fmt.Sprintf("query %q over %v:\n  row iteration [%s] %s\n  row iteration [%s] %s", q, c.Pairs, firstCfg, lib.ShowRows(firstRows), rcfg, lib.ShowRows(row.Rows)), false, labels
			}
		}
		cfg := lib.Cfg{Mode: "batch", Batch: bs, Cache: true}
		bStore := lib.NewStore(c.Pairs)
		bat := lib.Run(q, bStore, len(c.Pairs), cfg)
		if bat.BuildErr != nil {
			return fmt.Sprintf("query %q builds for row iteration but not for batch iteration: %v", q, bat.BuildErr), false, labels
		}
		if bat.Panic != "" || bat.StepCap {
			return fmt.Sprintf("query %q over %v [%s]: %s", q, c.Pairs, cfg, bat.Describe()), false, labels
		}
		switch {
		case bat.ExecErr == nil && row.ExecErr != nil:
			return fmt.Sprintf("query %q over %v: batch iteration [%s] completes with %s but row iteration fails: %v", q, c.Pairs, cfg, lib.ShowRows(bat.Rows), row.ExecErr), false, labels
		case bat.ExecErr != nil && row.ExecErr == nil:
			labels = append(labels, "row-ok-batch-error")
			continue
		case bat.ExecErr != nil && row.ExecErr != nil:
			labels = append(labels, "both-error")
			continue
		}
		if !sameUpToTies(row.Rows, bat.Rows, keyIdx) {
			return fmt.Sprintf("query %q over %v:\n  row iteration   %s\n  batch [%s] %s", q, c.Pairs, lib.ShowRows(row.Rows), cfg, lib.ShowRows(bat.Rows)), false, labels
		}
		if !isSelect {
			if fmt.Sprint(rowStore.Pairs()) != fmt.Sprint(bStore.Pairs()) {
				return fmt.Sprintf("statement %q over %v leaves different stores: row iteration %v, batch [%s] %v", q, c.Pairs, rowStore.Pairs(), cfg, bStore.Pairs()), false, labels
			}
		}
		nrows := len(row.Rows)
		if nrows >= 2 || nrows > bs || len(c.Pairs) > bs {
			nontrivial = true
		}
		if bs > 0 && nrows > 0 && nrows%bs == 0 {
			labels = append(labels, "rows-multiple-of-batch")
		}
	}
	return "", nontrivial, labels
}

// TestC03Dynamic: the operator families and functions over dynamically typed
// JSON members (statically text, at run time a number, a text, a Boolean,
// null, an array or an object - the same or another kind on the next pair):
// the row form and the batch form of every operator decide on the kind they
// find, and must agree whenever the batch form answers.
func TestC03Dynamic(t *testing.T) {
	lib.Stats.Exhaustive = true
	idx := 0
	doc := func(m, n string) string {
		parts := []string{}
		if m != "" {
			parts = append(parts, `"m": `+m)
		}
		if n != "" {
			parts = append(parts, `"n": `+n)
		}
		return "{" + strings.Join(parts, ", ") + "}"
	}
	for _, tpl := range c06Templates {
		for a, sa := range c06Shapes {
			for b, sb := range c06Shapes {
				idx++
				if !lib.Mine(idx) {
					continue
				}
				// runs of one kind (both members of kind a, then of kind b), so
				// that the batch form gets through a whole chunk
				pairs := []lib.Pair{
					{K: "a", V: doc(sa.text, sa.text)}, {K: "b", V: doc(sa.text, sa.text)},
					{K: "c", V: doc(sb.text, sb.text)}, {K: "d", V: doc(sb.text, sa.text)},
				}
				if (a+b)%3 == 0 {
					pairs = pairs[:2]
				}
				c := &c03Case{Raw: tpl, Pairs: pairs, Batch: []int{1, 2, 3, 32}[idx%4], Batch2: 2}
				lib.Journal("C03", "c03", c)
				msg, _, labels := checkC03(c)
				agree := true
				for _, l := range labels {
					if l == "row-ok-batch-error" || l == "both-error" {
						agree = false
					}
				}
				lib.Stats.EnumCase(agree, append(labels, "dynamic-json", "first-kind="+sa.name), func() any { return map[string]any{"query": tpl, "pairs": pairs} })
				if msg != "" {
					fail(t, "C03", "c03", msg, c)
				}
			}
		}
	}
}

func stmtLabels(st *lib.Stmt) []string {
	ls := []string{"stmt=" + st.Kind}
	if st.Kind == "select" {
		if st.IsAggregate() {
			ls = append(ls, "aggregate")
		}
		if len(st.Order) > 0 {
			ls = append(ls, "ordered")
		}
		if st.Lim != nil {
			ls = append(ls, "limited")
		}
		for _, f := range st.Fields {
			if f.Alias != "" {
				ls = append(ls, "has-alias")
				break
			}
		}
	}
	return ls
}

func hasTwin(st *lib.Stmt) bool {
	if st.Kind != "select" {
		return true
	}
	if st.IsAggregate() || len(st.Order) > 0 || st.Lim != nil {
		return true
	}
	twin := false
	check := func(n *lib.Node) {
		if n != nil && n.Has(func(x *lib.Node) bool { return x.K == "call" || x.K == "ref" || x.K == "index" || x.K == "field" }) {
			twin = true
		}
	}
	check(st.Where)
	for _, f := range st.Fields {
		check(f.E)
	}
	return twin
}

func TestC03(t *testing.T) {
	rapid.Check(t, func(rt *rapid.T) {
		kind := lib.GenKind(rt)
		var pairs []lib.Pair
		if rapid.IntRange(0, 3).Draw(rt, "hostileStore") == 0 {
			pairs = lib.GenHostileStore(rt) // conversions fail, dynamic types change between rows
		} else {
			pairs = lib.GenStore(rt, kind, lib.GenStoreSize(rt))
		}
		st := lib.GenAnyStmt(rt, kind, pairs, true)
		c := &c03Case{Stmt: st, Pairs: pairs, Batch: lib.GenBatchSize(rt), Batch2: rapid.SampledFrom([]int{1, 2, 3, 5, 32, 64}).Draw(rt, "batch2")}
		lib.Journal("C03", "c03", c)
		msg, nt, labels := checkC03(c)
		labels = append(labels, stmtLabels(st)...)
		lib.Stats.Case(nt && hasTwin(st), c.Query+"|"+fmt.Sprint(pairs, c.Batch, c.Batch2), labels, func() any {
			return map[string]any{"query": c.Query, "pairs": len(pairs), "batch": []int{c.Batch, c.Batch2}}
		})
		if msg != "" {
			fail(rt, "C03", "c03", msg, c)
		}
	})
}
