package checks

import (
	"fmt"
	"testing"

	"pgregory.net/rapid"

	"verif/lib"
)

// C01 — SELECT returns exactly the pairs satisfying WHERE, once each, in key
// order, identically on repetition and in both iteration modes.

type c01Case struct {
	Stmt  *lib.Stmt  `json:"stmt"`
	Pairs []lib.Pair `json:"pairs"`
	Batch int        `json:"batch"`
	Query string     `json:"query"` // informational (rendered from Stmt)
}

func init() { registerReplay("c01", func(c *c01Case) string { m, _, _ := checkC01(c); return m }) }

func scanLabel(plan any) string {
	return fmt.Sprintf("scan=%T", lib.ScanNode(plan))
}

// expectedPairs evaluates the predicate with the reference evaluator.
func expectedPairs(where *lib.Node, pairs []lib.Pair, defs map[string]*lib.Node) ([][]any, error) {
	var rows [][]any
	for _, p := range lib.NewStore(pairs).Pairs() {
		ok, err := lib.EvalBool(where, p.K, p.V, defs)
		if err != nil {
			return nil, err
		}
		if ok {
			rows = append(rows, []any{p.K, p.V})
		}
	}
	return rows, nil
}

func checkC01(c *c01Case) (msg string, nontrivial bool, labels []string) {
	q := c.Stmt.Render()
	c.Query = q
	want, err := expectedPairs(c.Stmt.Where, c.Pairs, nil)
	if err != nil {
		return "", false, []string{"skipped-not-evaluable"}
	}
	nontrivial = len(want) > 0 && len(want) < len(c.Pairs)
	for _, mode := range []string{"row", "batch"} {
		for rep := 0; rep < 2; rep++ {
			cfg := lib.Cfg{Mode: mode, Batch: c.Batch, Cache: true}
			res := lib.Run(q, lib.NewStore(c.Pairs), len(c.Pairs), cfg)
			if rep == 0 && mode == "row" && res.Plan != nil {
				labels = append(labels, scanLabel(res.Plan))
			}
			if res.BuildErr != nil {
				// C01 quantifies over accepted queries; acceptance of well-typed
				// statements is C14's subject. Counted, and the driver reports an
				// unhealthy generator if this is not rare.
				return "", false, append(labels, "rejected-by-engine")
			}
			if res.Failed() {
				return fmt.Sprintf("query %q over %d pairs [%s]: expected %d rows %s, engine: %s", q, len(c.Pairs), cfg, len(want), lib.ShowRows(want), res.Describe()), nontrivial, labels
			}
			if !lib.EqualRows(res.Rows, want) {
				return fmt.Sprintf("query %q over store %v [%s, repetition %d]:\n  expected %s\n  engine   %s", q, c.Pairs, cfg, rep, lib.ShowRows(want), lib.ShowRows(res.Rows)), nontrivial, labels
			}
		}
	}
	return "", nontrivial, labels
}

func predLabels(n *lib.Node) []string {
	var ls []string
	add := func(cond bool, l string) {
		if cond {
			ls = append(ls, l)
		}
	}
	add(n.Has(func(x *lib.Node) bool { return x.K == "bin" && (x.S == "+" || x.S == "-" || x.S == "*" || x.S == "/") }), "uses-arith")
	add(n.Has(func(x *lib.Node) bool { return x.K == "call" }), "uses-func")
	add(n.Has(func(x *lib.Node) bool { return x.K == "in" }), "uses-in")
	add(n.Has(func(x *lib.Node) bool { return x.K == "between" }), "uses-between")
	add(n.Has(func(x *lib.Node) bool { return x.K == "not" }), "uses-not")
	add(n.Has(func(x *lib.Node) bool {
		return x.K == "bin" && len(x.A) == 2 && x.A[0].K == "str" && (x.A[1].K == "key" || x.A[1].K == "value")
	}), "literal-on-left")
	add(n.Has(func(x *lib.Node) bool { return x.K == "bin" && (x.S == "and" || x.S == "or") }), "uses-word-logic")
	return ls
}

func TestC01(t *testing.T) {
	rapid.Check(t, func(rt *rapid.T) {
		kind := lib.GenKind(rt)
		bs := lib.GenBatchSize(rt)
		pairs := lib.GenStore(rt, kind, lib.GenStoreSize(rt))
		ctx := &lib.GenCtx{Kind: kind, Pairs: pairs}
		// GenWhere: now and then a predicate over a list value (IN over a
		// function result, len, [n]) joins the Boolean tree
		where := ctx.GenWhere(rt, rapid.IntRange(0, 4).Draw(rt, "depth"))
		if rapid.IntRange(0, 9).Draw(rt, "listOnly") == 0 {
			where = ctx.ListPredicate(rt)
		}
		st := &lib.Stmt{Kind: "select", Star: true, Where: where, NoSelKW: rapid.IntRange(0, 4).Draw(rt, "bareWhere") == 0}
		if rapid.IntRange(0, 9).Draw(rt, "semis") == 0 {
			st.Semis = rapid.IntRange(1, 2).Draw(rt, "nsemis")
		}
		c := &c01Case{Stmt: st, Pairs: pairs, Batch: bs}
		lib.Journal("C01", "c01", c)
		msg, nt, labels := checkC01(c)
		labels = append(labels, predLabels(where)...)
		labels = append(labels, fmt.Sprintf("kind=%s", kind))
		if len(pairs) > bs {
			labels = append(labels, "spans-chunks")
		}
		lib.Stats.Case(nt, c.Query+"|"+fmt.Sprint(pairs), labels, func() any {
			return map[string]any{"query": c.Query, "pairs": len(pairs), "batch": bs}
		})
		if msg != "" {
			fail(rt, "C01", "c01", msg, c)
		}
	})
}
