package checks

import (
	"encoding/json"
	"fmt"
	"os"
	"testing"

	"verif/lib"
)

func TestMain(m *testing.M) {
	// rapid replays testdata/rapid/**.fail first; runs must be a pure function
	// of the code and the seed, so the directory is never kept.
	os.RemoveAll("testdata/rapid")
	code := m.Run()
	lib.Stats.Flush()
	os.RemoveAll("testdata/rapid")
	os.Exit(code)
}

// replayers maps a replay-file kind to the oracle for that kind of case. The
// function returns "" when the property holds on the case.
var replayers = map[string]func(raw json.RawMessage) (string, error){}

func registerReplay[T any](kind string, check func(c *T) string) {
	replayers[kind] = func(raw json.RawMessage) (string, error) {
		var c T
		if err := lib.DecodeCase(raw, &c); err != nil {
			return "", err
		}
		return check(&c), nil
	}
}

// TestReplay re-runs one saved case through its oracle, with no generator.
// VERIF_REPLAY=<file>. Exit status: pass = property holds on that case.
func TestReplay(t *testing.T) {
	path := os.Getenv("VERIF_REPLAY")
	if path == "" {
		t.Skip("VERIF_REPLAY not set")
	}
	b, err := os.ReadFile(path)
	if err != nil {
		t.Fatalf("cannot read replay file: %v", err)
	}
	var rf lib.ReplayFile
	if err := json.Unmarshal(b, &rf); err != nil {
		t.Fatalf("cannot parse replay file: %v", err)
	}
	f, ok := replayers[rf.Kind]
	if !ok {
		t.Fatalf("unknown replay kind %q", rf.Kind)
	}
	lib.Journal(rf.Property, rf.Kind, rf.Case)
	msg, err := f(rf.Case)
	if err != nil {
		t.Fatalf("cannot decode case: %v", err)
	}
	if msg != "" {
		fmt.Printf("REPLAY-FAILS property=%s %s\n", rf.Property, msg)
		t.Fatalf("replay still violates %s: %s", rf.Property, msg)
	}
	fmt.Printf("REPLAY-HOLDS property=%s\n", rf.Property)
}

// fail is the common tail of every property.
func fail(t lib.Fataler, prop, kind, msg string, c any) {
	t.Helper()
	lib.Violation(t, prop, kind, msg, c)
}
