#!/usr/bin/env python3
"""Driver for the kvql property checks.

  python3 run.py <ID> <quick|thorough>     run one property's check
  python3 run.py replay <file>             re-run one saved case through its oracle
  python3 run.py setup                     warm the build cache (MANIFEST.setup_cmd)
  python3 run.py list                      list properties and legs

Exit status: 0 property held on everything explored, 1 violation (a line
"VIOLATION property=<id> replay=<path>" is printed), 2 inconclusive (build
failure, timeout, worker death that does not reproduce, unhealthy generator).
"""
import array
import hashlib
import json
import os
import shutil
import subprocess
import sys
import time

ROOT = os.path.dirname(os.path.abspath(__file__))
REPO = "/repo"
sys.path.insert(0, ROOT)
from props import PROPS  # noqa: E402

GOENV = {
    "GOFLAGS": "-mod=mod",
    "GOPROXY": "off",
    "GOSUMDB": "off",
    "GOTOOLCHAIN": "local",
    "GONOSUMDB": "*",
    "GONOSUMCHECK": "1",
}
MAXPROCS = int(os.environ.get("VERIF_PROCS", "16"))


def env_base():
    e = dict(os.environ)
    e.update(GOENV)
    # a data race ends the process at once, so the journalled case is the racing one
    e["GORACE"] = "halt_on_error=1"
    return e


def log(msg):
    print(msg, flush=True)


def modfile_args(workdir):
    """VERIF_REPO=<dir> points the checks at another copy of kvql (a scratch
    worktree with a candidate change) without touching /repo or go.mod."""
    alt = os.environ.get("VERIF_REPO")
    if not alt or os.path.abspath(alt) == REPO:
        return []
    mf = os.path.join(workdir, "alt.go.mod")
    if not os.path.exists(mf):
        text = open(os.path.join(ROOT, "go.mod")).read().replace("=> /repo", "=> " + os.path.abspath(alt))
        open(mf, "w").write(text)
        shutil.copy(os.path.join(ROOT, "go.sum"), os.path.join(workdir, "alt.go.sum"))
    return ["-modfile=" + mf]


def build(workdir, race):
    out = os.path.join(workdir, "checks.race.test" if race else "checks.test")
    cmd = ["go", "test", "-c", "-o", out] + modfile_args(workdir)
    if race:
        cmd.append("-race")
    cmd.append("./checks")
    t0 = time.time()
    p = subprocess.run(cmd, cwd=ROOT, env=env_base(), stdout=subprocess.PIPE, stderr=subprocess.STDOUT, text=True)
    if p.returncode != 0:
        log("BUILD FAILED (inconclusive):\n" + p.stdout[-4000:])
        return None
    log("built %s in %.1fs" % (os.path.basename(out), time.time() - t0))
    return out


def run_replay(binary, path, workdir, tag):
    """returns ('holds'|'fails'|'died'|'error', output)"""
    e = env_base()
    e["VERIF_REPLAY"] = path
    e["VERIF_JOURNAL"] = os.path.join(workdir, "journal.%s" % tag)
    e.pop("VERIF_FAIL_OUT", None)
    e.pop("VERIF_STATS_OUT", None)
    try:
        p = subprocess.run([binary, "-test.run", "^TestReplay$", "-test.count=1", "-test.timeout", "120s"],
                           cwd=os.path.join(ROOT, "checks"), env=e, stdout=subprocess.PIPE, stderr=subprocess.STDOUT,
                           text=True, errors="replace", timeout=180)
    except subprocess.TimeoutExpired:
        return "died", "replay timed out"
    out = p.stdout
    if "WARNING: DATA RACE" in out:
        return "fails", out
    if "REPLAY-HOLDS" in out and p.returncode == 0:
        return "holds", out
    if "REPLAY-FAILS" in out:
        return "fails", out
    if "cannot read replay file" in out or "cannot parse replay file" in out or "unknown replay kind" in out or "cannot decode case" in out:
        return "error", out
    return "died", out


def load_findings():
    """known-findings.txt -> list of dicts(kind=finding|fixed, property, ...)"""
    path = os.path.join(ROOT, "known-findings.txt")
    res = []
    if not os.path.exists(path):
        return res
    for line in open(path):
        line = line.strip()
        if not line or line.startswith("#"):
            continue
        if line.startswith("finding:"):
            head, _, text = line[len("finding:"):].partition("::")
            d = {"kind": "finding", "text": text.strip()}
            for tok in head.split():
                k, _, v = tok.partition("=")
                d[k] = v
            res.append(d)
        elif line.startswith("fixed:"):
            toks = line[len("fixed:"):].split(None, 2)
            d = {"kind": "fixed"}
            if toks and toks[0].startswith("property="):
                d["property"] = toks[0].split("=", 1)[1]
            res.append(d)
    return res


def merge_hashes(files):
    seen = set()
    for f in files:
        if not os.path.exists(f):
            continue
        a = array.array("Q")
        with open(f, "rb") as fh:
            data = fh.read()
        a.frombytes(data)
        seen.update(a)
    return len(seen)


def save_replay(prop, src):
    d = os.path.join(ROOT, "replays", prop)
    os.makedirs(d, exist_ok=True)
    data = open(src, "rb").read()
    name = "found-%s.json" % hashlib.sha1(data).hexdigest()[:12]
    dst = os.path.join(d, name)
    with open(dst, "wb") as fh:
        fh.write(data)
    return dst


def journal_case(path):
    if not os.path.exists(path):
        return None
    raw = open(path, "rb").read()
    try:
        n = int(raw[:10])
        body = raw[11:11 + n]
        json.loads(body)
        return body
    except Exception:
        return None


def check(prop, tier):
    t0 = time.time()
    spec = PROPS[prop]
    seed = int(os.environ.get("VERIF_SEED", "1") or "1")
    workdir = os.path.join(ROOT, "work", "%s.%d" % (prop, os.getpid()))
    shutil.rmtree(workdir, ignore_errors=True)
    os.makedirs(workdir)
    os.makedirs(os.path.join(ROOT, "evidence"), exist_ok=True)
    rc = 2
    try:
        rc = check_in(prop, tier, spec, seed, workdir, t0)
    finally:
        shutil.rmtree(workdir, ignore_errors=True)
        try:
            os.rmdir(os.path.join(ROOT, "work"))
        except OSError:
            pass
    return rc


def check_in(prop, tier, spec, seed, workdir, t0):
    legs = spec["legs"]
    need_race = any(l.get("race") for l in legs)
    need_plain = any(not l.get("race") for l in legs) or True
    binary = build(workdir, False) if need_plain else None
    if need_plain and binary is None:
        return 2
    rbinary = None
    if need_race:
        rbinary = build(workdir, True)
        if rbinary is None:
            return 2

    violations = []  # (replay path, message)
    known_lines = []
    inconclusive = []

    # ---- replay tier: committed minimal reproductions (seconds) -------------
    findings = [f for f in load_findings() if f.get("property") == prop]
    witness = {os.path.normpath(os.path.join(ROOT, f["witness"])): f for f in findings if f["kind"] == "finding" and "witness" in f}
    rdir = os.path.join(ROOT, "replays", prop)
    replays = sorted(os.path.join(rdir, f) for f in os.listdir(rdir)) if os.path.isdir(rdir) else []
    if os.environ.get("VERIF_NO_REPLAY"):
        replays = []  # sensitivity experiments: judge the generated search alone
    nreplay = 0
    for i, rp in enumerate(replays):
        if not rp.endswith(".json"):
            continue
        nreplay += 1
        status, out = run_replay(rbinary if need_race else binary, rp, workdir, "r%d" % i)
        rel = os.path.relpath(rp, ROOT)
        if os.path.normpath(rp) in witness:
            f = witness[os.path.normpath(rp)]
            if status in ("fails", "died"):
                known_lines.append("KNOWN-FINDING: property=%s %s" % (prop, f["text"]))
            elif status == "error":
                inconclusive.append("witness %s unreadable: %s" % (rel, out[-300:]))
            else:
                log("note: known finding %s no longer reproduces (%s)" % (f.get("id", "?"), rel))
            continue
        if status == "holds":
            continue
        if status == "error":
            inconclusive.append("replay %s unreadable: %s" % (rel, out[-300:]))
            continue
        violations.append((rel, "saved reproduction fails again: " + tail(out, 6)))

    # ---- generated search ----------------------------------------------------
    jobs = []
    fuzz_legs = []
    for li, leg in enumerate(legs):
        if leg.get("kind") == "fuzz":
            if tier in leg:
                fuzz_legs.append((li, leg, leg[tier]))
            continue
        cfg = leg[tier] if tier in leg else leg["quick"]
        nshards = cfg.get("shards", 1)
        for sh in range(nshards):
            jobs.append((li, leg, cfg, sh, nshards))
    procs = []
    pending = list(jobs)
    running = []
    results = []
    timeout_s = spec.get("timeout", {}).get(tier, 900 if tier == "quick" else 5400)

    def start(job):
        li, leg, cfg, sh, nshards = job
        tag = "%d.%d" % (li, sh)
        e = env_base()
        e["VERIF_TIER"] = tier
        e["VERIF_SEED"] = str(seed)
        e["VERIF_SHARD"] = str(sh)
        e["VERIF_NSHARDS"] = str(nshards)
        e["VERIF_STATS_OUT"] = os.path.join(workdir, "stats.%s.json" % tag)
        e["VERIF_FAIL_OUT"] = os.path.join(workdir, "fail.%s.json" % tag)
        e["VERIF_JOURNAL"] = os.path.join(workdir, "journal.%s" % tag)
        e["VERIF_PROP"] = prop
        if leg.get("gomaxprocs"):
            e["GOMAXPROCS"] = str(leg["gomaxprocs"])
        b = rbinary if leg.get("race") else binary
        cmd = [b, "-test.run", "^%s$" % leg["test"], "-test.count=1", "-test.timeout", "%ds" % timeout_s]
        if leg.get("kind", "rapid") == "rapid":
            rseed = 1 + 1000 * seed + 7919 * sh + 101 * li
            cmd += ["-rapid.seed=%d" % rseed, "-rapid.checks=%d" % cfg["checks"],
                    "-rapid.shrinktime=%s" % cfg.get("shrink", "20s"), "-rapid.nofailfile"]
            if cfg.get("steps"):
                cmd += ["-rapid.steps=%d" % cfg["steps"]]
        outf = open(os.path.join(workdir, "out.%s.txt" % tag), "w")
        p = subprocess.Popen(cmd, cwd=os.path.join(ROOT, "checks"), env=e, stdout=outf, stderr=subprocess.STDOUT)
        return (p, job, tag, time.time(), outf)

    while pending or running:
        while pending and len(running) < MAXPROCS:
            running.append(start(pending.pop(0)))
        time.sleep(0.05)
        still = []
        for r in running:
            p, job, tag, st, outf = r
            code = p.poll()
            if code is None:
                if time.time() - st > timeout_s + 60:
                    p.kill()
                    p.wait()
                    outf.close()
                    results.append((job, tag, "timeout"))
                else:
                    still.append(r)
                continue
            outf.close()
            results.append((job, tag, code))
        running = still

    # ---- collect -------------------------------------------------------------
    evals = 0
    enum_nt = 0
    hash_files = []
    labels = {}
    excluded = {}
    samples = []
    notes = []
    exhaustive = None
    leg_summ = {}
    for job, tag, code in sorted(results, key=lambda r: r[1]):
        li, leg, cfg, sh, nshards = job
        out = open(os.path.join(workdir, "out.%s.txt" % tag), errors="replace").read()
        sp = os.path.join(workdir, "stats.%s.json" % tag)
        fp = os.path.join(workdir, "fail.%s.json" % tag)
        jp = os.path.join(workdir, "journal.%s" % tag)
        st = None
        if os.path.exists(sp):
            try:
                st = json.load(open(sp))
            except Exception:
                st = None
        if st:
            evals += st["evals"]
            enum_nt += st["enum_nontrivial"]
            hash_files.append(sp + ".hashes")
            for k, v in (st.get("labels") or {}).items():
                labels[k] = labels.get(k, 0) + v
            for k, v in (st.get("excluded") or {}).items():
                excluded[k] = excluded.get(k, 0) + v
            for s in st.get("samples") or []:
                if len(samples) < 12 or (len(samples) < 40 and sh == 0):
                    samples.append(s)
            for n in st.get("notes") or []:
                if n not in notes:
                    notes.append(n)
            if leg.get("kind") == "enum":
                exhaustive = st.get("exhaustive", False) if exhaustive is None else (exhaustive and st.get("exhaustive", False))
            ls = leg_summ.setdefault(leg["test"], {"evaluations": 0, "processes": 0})
            ls["evaluations"] += st["evals"]
            ls["processes"] += 1
        if code == 0:
            if leg.get("kind", "rapid") == "rapid" and "OK, passed" in out:
                # rapid stops silently at the go test deadline: compare counts
                try:
                    n = int(out.split("OK, passed")[1].split()[0])
                    if n < cfg["checks"]:
                        inconclusive.append("%s shard %d: rapid ran only %d of %d cases" % (leg["test"], sh, n, cfg["checks"]))
                except Exception:
                    pass
            continue
        if code == "timeout" or "panic: test timed out" in out:
            inconclusive.append("%s shard %d: timed out" % (leg["test"], sh))
            continue
        if os.path.exists(fp):
            dst = save_replay(prop, fp)
            try:
                msg = json.load(open(fp)).get("message", "")
            except Exception:
                msg = ""
            violations.append((os.path.relpath(dst, ROOT), msg))
            continue
        if "WARNING: DATA RACE" in out and os.path.exists(jp):
            body = journal_case(jp)
            if body is not None:
                tmp = os.path.join(workdir, "race.%s.json" % tag)
                rf = json.loads(body)
                rf["message"] = "data race reported by the race detector:\n" + race_excerpt(out)
                open(tmp, "w").write(json.dumps(rf, indent=1))
                dst = save_replay(prop, tmp)
                violations.append((os.path.relpath(dst, ROOT), rf["message"].splitlines()[0]))
                continue
        # process died without a recorded failure: attribute via the journal
        body = journal_case(jp)
        if body is not None:
            tmp = os.path.join(workdir, "crash.%s.json" % tag)
            open(tmp, "wb").write(body)
            status, rout = run_replay(rbinary if leg.get("race") else binary, tmp, workdir, "c" + tag)
            if status in ("died", "fails"):
                rf = json.loads(body)
                rf["message"] = "process died (fatal runtime error) while running this case: " + tail(rout if status == "died" else out, 8)
                open(tmp, "w").write(json.dumps(rf, indent=1))
                dst = save_replay(prop, tmp)
                violations.append((os.path.relpath(dst, ROOT), rf["message"][:300]))
                continue
        inconclusive.append("%s shard %d: exit %s without a recorded failure:\n%s" % (leg["test"], sh, code, tail(out, 25)))

    # ---- native coverage-guided fuzzing (thorough tier; uses all cores) ---------
    fuzz_execs = 0
    for li, leg, cfg in fuzz_legs:
        if violations:
            break  # a shallow failure would end the campaign in seconds anyway
        name = leg["test"]
        fp = os.path.join(workdir, "fail.fuzz%d.json" % li)
        e = env_base()
        e["VERIF_TIER"] = tier
        e["VERIF_FAIL_OUT"] = fp
        e.pop("VERIF_STATS_OUT", None)
        e.pop("VERIF_JOURNAL", None)
        crashdir = os.path.join(ROOT, "checks", "testdata", "fuzz", name)
        shutil.rmtree(crashdir, ignore_errors=True)
        cmd = ["go", "test"] + modfile_args(workdir) + ["./checks", "-run", "^$", "-fuzz", "^%s$" % name, "-fuzztime", "%ds" % cfg["fuzztime"],
               "-parallel", str(MAXPROCS), "-test.fuzzcachedir", os.path.join(workdir, "fuzzcache")]
        try:
            p = subprocess.run(cmd, cwd=ROOT, env=e, stdout=subprocess.PIPE, stderr=subprocess.STDOUT, text=True,
                               errors="replace", timeout=cfg["fuzztime"] + 600)
            out, code = p.stdout, p.returncode
        except subprocess.TimeoutExpired as ex:
            out, code = (ex.stdout or b"").decode(errors="replace") if isinstance(ex.stdout, bytes) else (ex.stdout or ""), "timeout"
        n = 0
        for line in out.splitlines():
            if "execs:" in line:
                try:
                    n = max(n, int(line.split("execs:")[1].split()[0]))
                except Exception:
                    pass
        fuzz_execs += n
        leg_summ[name] = {"evaluations": n, "processes": MAXPROCS, "fuzztime_s": cfg["fuzztime"]}
        if code == 0:
            continue
        if code == "timeout":
            inconclusive.append("%s: fuzzing did not stop in time" % name)
            continue
        crashers = sorted(os.listdir(crashdir)) if os.path.isdir(crashdir) else []
        if os.path.exists(fp):
            dst = save_replay(prop, fp)
            try:
                msg = json.load(open(fp)).get("message", "")
            except Exception:
                msg = ""
            violations.append((os.path.relpath(dst, ROOT), "found by native fuzzing (%s): %s" % (name, msg)))
        elif crashers:
            # the worker died (fatal runtime error): rebuild the case from the saved fuzz input
            tmp = os.path.join(workdir, "crasher.%d.json" % li)
            e2 = env_base()
            e2["VERIF_CRASHER"] = os.path.join(crashdir, crashers[0])
            e2["VERIF_CRASHER_FUZZ"] = name
            e2["VERIF_FAIL_OUT"] = tmp
            subprocess.run([binary, "-test.run", "^TestConvertCrasher$", "-test.count=1"], cwd=os.path.join(ROOT, "checks"),
                           env=e2, stdout=subprocess.PIPE, stderr=subprocess.STDOUT)
            if os.path.exists(tmp):
                dst = save_replay(prop, tmp)
                violations.append((os.path.relpath(dst, ROOT), "native fuzzing (%s): worker process died on this input: %s" % (name, tail(out, 8))))
            else:
                inconclusive.append("%s: fuzz worker died and the input could not be converted:\n%s" % (name, tail(out, 20)))
        else:
            inconclusive.append("%s: go test -fuzz failed without a crasher:\n%s" % (name, tail(out, 20)))
        shutil.rmtree(os.path.join(ROOT, "checks", "testdata"), ignore_errors=True)
    evals += fuzz_execs

    distinct = enum_nt + merge_hashes(hash_files)
    # generator health
    floor = spec.get("min_nontrivial", {}).get(tier, 2)
    if not violations and not inconclusive and distinct < floor:
        inconclusive.append("generator unhealthy: only %d distinct non-trivial cases (floor %d)" % (distinct, floor))
    for lab, minv in (spec.get("min_labels") or {}).items():
        if not violations and not inconclusive and labels.get(lab, 0) < minv:
            inconclusive.append("generator unhealthy: label %r seen %d times (floor %d)" % (lab, labels.get(lab, 0), minv))

    wall = time.time() - t0
    ev = {
        "property_id": prop,
        "tier": tier,
        "seed": seed,
        "level": spec["level"],
        "coverage": {
            "evaluations": evals + nreplay,
            "distinct_nontrivial": distinct,
            "rule": spec["rule"],
            "samples": samples[:24] if samples else ["(no sample recorded)"],
            "labels": dict(sorted(labels.items())),
            "excluded_by_known_finding_rules": excluded,
            "legs": leg_summ,
            "replays_rerun": nreplay,
            "notes": notes,
        },
        "assumptions": spec["assumptions"],
        "wall_s": round(wall, 2),
        "violations": len(violations),
    }
    if exhaustive is not None:
        ev["coverage"]["exhaustive"] = bool(exhaustive)
    if inconclusive:
        ev["coverage"]["inconclusive"] = inconclusive
    with open(os.path.join(ROOT, "evidence", "%s.json" % prop), "w") as fh:
        json.dump(ev, fh, indent=1, sort_keys=False)
        fh.write("\n")

    for l in known_lines:
        log(l)
    log("%s %s: %d evaluations, %d distinct non-trivial, %.1fs" % (prop, tier, evals + nreplay, distinct, wall))
    if violations:
        seen_v = set()
        for rel, msg in violations:
            if rel in seen_v:
                continue
            seen_v.add(rel)
            log("  " + msg.replace("\n", "\n  ")[:1500])
            log("VIOLATION property=%s replay=%s" % (prop, os.path.join(ROOT, rel)))
        return 1
    if inconclusive:
        for m in inconclusive:
            log("INCONCLUSIVE: " + m)
        return 2
    log("OK property=%s" % prop)
    return 0


def tail(s, n):
    lines = [l for l in s.strip().splitlines()]
    return "\n".join(lines[-n:])


def race_excerpt(out):
    i = out.find("WARNING: DATA RACE")
    return "\n".join(out[i:].splitlines()[:40])


def cmd_replay(path):
    workdir = os.path.join(ROOT, "work", "replay.%d" % os.getpid())
    os.makedirs(workdir, exist_ok=True)
    try:
        try:
            prop = json.load(open(path)).get("property", "?")
        except Exception:
            prop = "?"
        race = prop in PROPS and any(l.get("race") for l in PROPS[prop]["legs"])
        binary = build(workdir, race)
        if binary is None:
            return 2
        status, out = run_replay(binary, os.path.abspath(path), workdir, "x")
        log(tail(out, 30))
        if status == "holds":
            return 0
        if status in ("fails", "died"):
            log("VIOLATION property=%s replay=%s" % (prop, os.path.abspath(path)))
            return 1
        return 2
    finally:
        shutil.rmtree(workdir, ignore_errors=True)
        try:
            os.rmdir(os.path.join(ROOT, "work"))
        except OSError:
            pass


def cmd_setup():
    workdir = os.path.join(ROOT, "work", "setup.%d" % os.getpid())
    os.makedirs(workdir, exist_ok=True)
    try:
        ok = build(workdir, False) is not None
        ok = (build(workdir, True) is not None) and ok
        return 0 if ok else 1
    finally:
        shutil.rmtree(workdir, ignore_errors=True)
        try:
            os.rmdir(os.path.join(ROOT, "work"))
        except OSError:
            pass


def main():
    if len(sys.argv) < 2:
        print(__doc__)
        return 2
    if sys.argv[1] == "setup":
        return cmd_setup()
    if sys.argv[1] == "list":
        for k, v in sorted(PROPS.items()):
            print(k, [l["test"] for l in v["legs"]])
        return 0
    if sys.argv[1] == "replay":
        return cmd_replay(sys.argv[2])
    prop = sys.argv[1]
    tier = sys.argv[2] if len(sys.argv) > 2 else os.environ.get("VERIF_TIER", "quick")
    if prop not in PROPS:
        print("unknown property", prop)
        return 2
    if tier not in ("quick", "thorough"):
        print("unknown tier", tier)
        return 2
    return check(prop, tier)


if __name__ == "__main__":
    sys.exit(main())
