#!/bin/bash
# usage: all.sh <tier> [ids...]   (VERIF_SEED / VERIF_REPO respected) — runs the checks one after the other, prints one line each
tier=${1:-quick}; shift
ids=${@:-C01 C02 C03 C04 C05 C06 C07 C08 C09 C10 C11 C12 C13 C14 C15 C16 C17 C18 C19}
for id in $ids; do
  s=$(date +%s)
  out=$(python3 run.py $id $tier 2>&1); rc=$?
  e=$(( $(date +%s) - s ))
  nv=$(echo "$out" | grep -c '^VIOLATION')
  echo "$id rc=$rc violations=$nv ${e}s $(echo "$out" | grep -m1 'evaluations')"
  if [ $rc -eq 2 ]; then echo "$out" | grep INCONCLUSIVE | head -3; fi
done
