#!/usr/bin/env python3
"""Writes MANIFEST.json from props.py (single source of truth for what is claimed)."""
import json, os, sys
ROOT = os.path.dirname(os.path.abspath(__file__))
sys.path.insert(0, ROOT)
from props import PROPS
ALL = ["C%02d" % i for i in range(1, 20)]
checks = []
for pid in ALL:
    if pid not in PROPS:
        continue
    p = PROPS[pid]
    checks.append({
        "property_id": pid,
        "quick_cmd": "python3 run.py %s quick" % pid,
        "thorough_cmd": "python3 run.py %s thorough" % pid,
        "evidence_file": "/verif/evidence/%s.json" % pid,
        "replay_cmd_template": "python3 run.py replay {path}",
        "engine": "kvql-pbt",
        "level_claimed": {"category": p["level"], "text": p["level_text"], "design_ref": p.get("design_ref", "DESIGN.md §4")},
        "level_note": p["level_note"],
        "technique": p["technique"],
    })
na = []
for pid in ALL:
    if pid not in PROPS:
        na.append({"property_id": pid, "reason": "check not built yet in this session (planned in DESIGN.md §4); nothing is claimed for it"})
m = {
    "version": 1,
    "setup_cmd": "python3 run.py setup",
    "hooks": {
        "guard": "verif",
        "enable": "no source hooks are needed: every observation point is exported API (checks build /repo as is, through a go.mod replace directive)",
        "baseline_off_cmd": "cd /repo && GOFLAGS=-mod=mod GOPROXY=off GOTOOLCHAIN=local go test -vet=off -count=1 ./...",
        "source_commits": [],
        "add_only": True,
    },
    "engines": [{
        "name": "kvql-pbt",
        "path": "/verif/run.py",
        "serves_properties": [c["property_id"] for c in checks],
        "kind_free_text": "property-based testing: pgregory.net/rapid generators + deterministic exhaustive enumerators over an own AST, "
                          "independent reference evaluator / reference tokeniser / model store as oracles, instrumented reference storage, "
                          "native go fuzzing in the thorough tier; driver shards seeds over processes and merges measured statistics",
    }],
    "checks": checks,
    "not_applicable": na,
    "notes": "Exit codes: 0 held, 1 violation (VIOLATION line + replay file), 2 inconclusive (build failure, timeout, unhealthy generator). "
             "Genuine defects repaired in /repo are listed as 'fixed:' lines in /verif/known-findings.txt; open ones as 'finding:' lines.",
}
json.dump(m, open(os.path.join(ROOT, "MANIFEST.json"), "w"), indent=1)
print("wrote MANIFEST.json: %d checks, %d not claimed" % (len(checks), len(na)))
